"""Stand-in for ruamel.yaml (not installable in this sandbox): RoundTripLoader(f).get_data() backed by the
YAML-subset loader.  A file outside the subset is recorded as undecided and yields an empty mapping."""
import os
from collections import OrderedDict

from vf.refmodel import yaml_subset

UNDECIDED = []


class RoundTripLoader:
    def __init__(self, stream):
        self._name = getattr(stream, "name", "?")
        self._text = stream.read()

    def get_data(self):
        try:
            return yaml_subset.load(self._text)
        except yaml_subset.UnsupportedYAML as e:
            UNDECIDED.append((os.path.basename(str(self._name)), str(e)))
            return OrderedDict()
