"""Explicit enumeration of timezone-cache life cycles against a reference model (used by C16).

Alphabet: plain import / import with BUILD_TZ_CACHE set (the repository's refresh procedure) / delete the cache / cut the cache
in half / edit the timezone definitions (one entry appended) / revert the edit.  Every sequence up to the given depth is executed on
a scratch copy of the package (real module-level code of timezone_parser.py, fresh alias package per import) from two initial
states (shipped cache, no cache).  Reference model (kept boring): source_version in {orig, edited}; cache_version in
{None (missing/damaged), orig, edited}:
    rm / truncate : cache_version = None          edit / revert : source_version changes
    import        : if cache_version is None: cache_version = source_version;  memory = cache_version
    build         : cache_version = source_version;                              memory = source_version
After every import/build the implementation must agree with the model: the table in memory is the model's, the cache on disk
loads with plain pickle and carries the model's cache_version table, no other file is left in the data directory.
No state deduplication: the implementation has hidden state (the hash stamped into the cache) that the model does not see.
"""
import multiprocessing as mp
import os
import shutil
import tempfile

from .props import c19
from .target import REPO, InfraError

OPS = ["import", "build", "rm", "truncate", "edit", "revert"]
EDIT = '\n\ntimezone_info_list[-1]["timezones"].append(("XVT", 3600))\n'
_REF = {}
_ORIG_SRC = None


def _apply(d, op, model):
    """Apply one operation to scratch package d; returns (new model, problem or None)."""
    src, cache = model
    data = os.path.join(d, "data")
    cpath = os.path.join(data, c19.CACHE)
    tz = os.path.join(d, "timezones.py")
    if op == "rm":
        if os.path.exists(cpath):
            os.remove(cpath)
        return (src, None), None
    if op == "truncate":
        if os.path.exists(cpath):
            n = os.path.getsize(cpath)
            with open(cpath, "r+b") as f:
                f.truncate(n // 2)
        return (src, None), None
    if op == "edit":
        with open(tz, "w") as f:
            f.write(_ORIG_SRC + EDIT)
        return ("edited", cache), None
    if op == "revert":
        with open(tz, "w") as f:
            f.write(_ORIG_SRC)
        return ("orig", cache), None
    before = set(os.listdir(data))
    if op == "build":
        os.environ["BUILD_TZ_CACHE"] = "1"
    else:
        os.environ.pop("BUILD_TZ_CACHE", None)
    try:
        try:
            m = c19.import_alias(d)
        except BaseException as e:  # noqa: BLE001
            if isinstance(e, (KeyboardInterrupt, SystemExit)):
                raise
            return model, "import raised %s" % type(e).__name__
    finally:
        os.environ.pop("BUILD_TZ_CACHE", None)
    if op == "build":
        cache = src
        mem = src
    else:
        if cache is None:
            cache = src
        mem = cache
    model = (src, cache)
    if c19.table_of(m) != _REF[mem]:
        return model, "table in memory is not the one of the %s definitions" % mem
    if not os.path.exists(cpath):
        return model, "no cache on disk afterwards"
    try:
        t = c19.table_of_pickle(cpath)
    except BaseException as e:  # noqa: BLE001
        return model, "cache on disk unreadable afterwards (%s)" % type(e).__name__
    if t != _REF[cache]:
        return model, "cache on disk does not carry the table of the %s definitions" % cache
    extra = set(os.listdir(data)) - before - {c19.CACHE}
    if extra:
        return model, "extra files left behind: %s" % sorted(extra)
    return model, None


def _fresh(initial):
    d = tempfile.mkdtemp(prefix="verif-life-", dir=c19.SCRATCH)
    c19.skeleton(d)
    if initial == "shipped":
        shutil.copyfile(os.path.join(REPO, "dateparser", "data", c19.CACHE), os.path.join(d, "data", c19.CACHE))
    return d


def _dfs(d, model, seq, depth, out):
    """Extend the sequence `seq` (already applied to d) by every operation, recursively."""
    if len(seq) >= depth:
        return
    for op in OPS:
        d2 = tempfile.mkdtemp(prefix="verif-life-", dir=c19.SCRATCH)
        try:
            shutil.rmtree(d2)
            shutil.copytree(d, d2)
            m2, prob = _apply(d2, op, model)
            out["transitions"] += 1
            out["sequences"] += 1
            if prob:
                out["bad"].append({"sequence": seq + [op], "problem": prob})
                continue            # a broken state is not extended: its descendants would repeat the report
            _dfs(d2, m2, seq + [op], depth, out)
        finally:
            shutil.rmtree(d2, ignore_errors=True)


def _work(task):
    try:
        initial, prefix, depth = task
        out = {"transitions": 0, "sequences": 0, "bad": []}
        d = _fresh(initial)
        try:
            model = ("orig", "orig" if initial == "shipped" else None)
            for i, op in enumerate(prefix):
                model, prob = _apply(d, op, model)
                if prob:
                    # reported by the task that owns this prefix as a leaf (shorter prefixes are enumerated as their own tasks)
                    return out
            _dfs(d, model, list(prefix), depth, out)
        finally:
            shutil.rmtree(d, ignore_errors=True)
        out["initial"] = initial
        return out
    except Exception:  # noqa: BLE001
        import traceback
        return {"error": traceback.format_exc()}


def _init(ref, src):
    global _ORIG_SRC
    _REF.update(ref)
    _ORIG_SRC = src


def _reference(src_text):
    """Table a cache-less scratch package with these definitions builds (checked against C16's independent rebuild for `orig`)."""
    d = tempfile.mkdtemp(prefix="verif-life-", dir=c19.SCRATCH)
    try:
        c19.skeleton(d)
        with open(os.path.join(d, "timezones.py"), "w") as f:
            f.write(src_text)
        os.environ.pop("BUILD_TZ_CACHE", None)
        return c19.table_of(c19.import_alias(d))
    finally:
        shutil.rmtree(d, ignore_errors=True)


def explore(depth, jobs, independent_orig=None):
    """All operation sequences of length <= depth from both initial states.  Returns counts and violations."""
    src = open(os.path.join(REPO, "dateparser", "timezones.py")).read()
    ref = {"orig": _reference(src), "edited": _reference(src + EDIT)}
    if independent_orig is not None and ref["orig"] != independent_orig:
        raise InfraError("life-cycle reference for the unedited definitions differs from the independent rebuild")
    if ref["orig"] == ref["edited"] or len(ref["edited"][0]) <= len(ref["orig"][0]):
        raise InfraError("the edit of the definitions does not change the table: life-cycle exploration would be vacuous")
    # tasks: every prefix of length 1 (its own leaf check + extension) is covered by starting from the empty prefix per first op
    tasks = []
    for initial in ("shipped", "missing"):
        for a in OPS:
            for b in OPS:
                tasks.append((initial, [a, b], depth))
    res = {"transitions": 0, "sequences": 0, "bad": [], "tasks": len(tasks)}
    ctx = mp.get_context("fork")
    with ctx.Pool(min(jobs, len(tasks)), initializer=_init, initargs=(ref, src)) as pool:
        # depth-1 and depth-2 sequences themselves (checked as leaves)
        short = pool.map(_work_short, [(i, s) for i in ("shipped", "missing") for s in ([[a] for a in OPS] + [[a, b] for a in OPS for b in OPS])])
        for r in short:
            if "error" in r:
                raise InfraError(r["error"])
            res["transitions"] += r["transitions"]
            res["sequences"] += 1
            res["bad"] += r["bad"]
        if depth > 2:
            for r in pool.imap_unordered(_work, tasks, chunksize=1):
                if "error" in r:
                    raise InfraError(r["error"])
                res["transitions"] += r["transitions"]
                res["sequences"] += r["sequences"]
                res["bad"] += [dict(b, initial=r.get("initial")) for b in r["bad"]]
    return res


def _work_short(task):
    try:
        initial, seq = task
        out = {"transitions": 0, "bad": []}
        d = _fresh(initial)
        try:
            model = ("orig", "orig" if initial == "shipped" else None)
            for i, op in enumerate(seq):
                model, prob = _apply(d, op, model)
                out["transitions"] += 1
                if prob:
                    if i == len(seq) - 1:
                        out["bad"].append({"sequence": list(seq), "problem": prob, "initial": initial})
                    break
        finally:
            shutil.rmtree(d, ignore_errors=True)
        return out
    except Exception:  # noqa: BLE001
        import traceback
        return {"error": traceback.format_exc()}
