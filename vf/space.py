"""E1 space algebra: finite, index-addressable sub-spaces (complete Cartesian products / explicit lists).

A property declares a list of sub-spaces; the runner enumerates every index of every sub-space.
Case = dict {dimension name: value}.  The last dimension varies fastest.
"""


class Product:
    def __init__(self, name, dims, note=""):
        self.name = name
        self.note = note
        self.names = list(dims.keys())
        self.doms = [list(v) for v in dims.values()]
        self.size = 1
        for d in self.doms:
            self.size *= len(d)
        self.dim_sizes = {n: len(d) for n, d in zip(self.names, self.doms)}

    def __len__(self):
        return self.size

    def __getitem__(self, i):
        if not 0 <= i < self.size:
            raise IndexError(i)
        out = {}
        for n, d in zip(reversed(self.names), reversed(self.doms)):
            i, r = divmod(i, len(d))
            out[n] = d[r]
        return out

    def describe(self):
        return {"name": self.name, "kind": "product", "size": self.size,
                "dims": self.dim_sizes, "note": self.note}


class Listed:
    def __init__(self, name, cases, note=""):
        self.name = name
        self.note = note
        self.cases = list(cases)
        self.size = len(self.cases)

    def __len__(self):
        return self.size

    def __getitem__(self, i):
        return self.cases[i]

    def describe(self):
        return {"name": self.name, "kind": "listed", "size": self.size, "note": self.note}


def stripe(seq, seed, modulus):
    """The residue class `seed mod modulus` of a long dimension (quick tier); thorough uses all."""
    seq = list(seq)
    r = seed % modulus
    return seq[r::modulus]
