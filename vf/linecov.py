"""Line coverage of the library under test, nearly free: Python 3.12's sys.monitoring LINE events, each location disabled after its
first hit.  Enabled by VERIF_COVERAGE=<dir>; every process that executes cases appends the library lines it has seen to
<dir>/<property>.<pid>.txt.  Not a verification step: tools/coverage_report.py turns the files into a list of library lines that no
check's alphabet reaches - the places where a change would go unnoticed - which is how new sub-spaces are chosen."""
import os
import sys

from .target import REPO

_LIB = os.path.join(REPO, "dateparser") + os.sep
_seen = set()
_new = []
_on = False
_tag = "x"


def enable(tag):
    global _on, _tag
    d = os.environ.get("VERIF_COVERAGE")
    if not d or _on or not hasattr(sys, "monitoring"):
        return
    _tag = tag
    mon = sys.monitoring
    tool = mon.COVERAGE_ID
    try:
        mon.use_tool_id(tool, "verif-linecov")
    except ValueError:
        return

    def on_line(code, line):
        fn = code.co_filename
        if fn.startswith(_LIB):
            key = (fn[len(_LIB):], line)
            if key not in _seen:
                _seen.add(key)
                _new.append(key)
        return mon.DISABLE

    mon.register_callback(tool, mon.events.LINE, on_line)
    mon.set_events(tool, mon.events.LINE)
    _on = True


def flush():
    if not _on or not _new:
        return
    d = os.environ["VERIF_COVERAGE"]
    os.makedirs(d, exist_ok=True)
    with open(os.path.join(d, "%s.%d.txt" % (_tag, os.getpid())), "a") as f:
        for fn, line in _new:
            f.write("%s:%d\n" % (fn, line))
    del _new[:]
