"""Binds the checks to the tree under test (VERIF_REPO, default /repo)."""
import os
import sys
import time

REPO = os.path.realpath(os.environ.get("VERIF_REPO", "/repo"))
VERIF = os.path.dirname(os.path.dirname(os.path.abspath(__file__)))
# evidence/ and replays/ go here; scratch runs against a modified copy (tools/mut.sh) redirect it
OUT = os.environ.get("VERIF_OUT") or VERIF


class InfraError(Exception):
    """Harness/infrastructure problem: exit status 2, never a VIOLATION."""


def ensure():
    if sys.path[0:1] != [REPO]:
        if REPO in sys.path:
            sys.path.remove(REPO)
        sys.path.insert(0, REPO)
    os.environ.setdefault("TZ", "UTC")
    time.tzset()
    import dateparser

    f = os.path.realpath(dateparser.__file__)
    if not f.startswith(REPO + os.sep):
        raise InfraError("dateparser imported from %s, not from %s" % (f, REPO))
    return dateparser


def git_head(path=None):
    import subprocess

    try:
        return subprocess.run(
            ["git", "-C", path or REPO, "rev-parse", "--short", "HEAD"],
            capture_output=True, text=True, timeout=20,
        ).stdout.strip()
    except Exception:
        return "?"
