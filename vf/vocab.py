"""The shipped vocabulary read as *specification*: language modules of the tree under test, with the
regional overlay applied by the harness's own merge (lists appended, dicts merged, scalars replaced)."""
import os
import runpy
import unicodedata

from .target import REPO, ensure

ensure()

MONTH_KEYS = ["january", "february", "march", "april", "may", "june", "july", "august", "september",
              "october", "november", "december"]
WEEKDAY_KEYS = ["monday", "tuesday", "wednesday", "thursday", "friday", "saturday", "sunday"]
UNIT_KEYS = ["decade", "year", "month", "week", "day", "hour", "minute", "second"]
OTHER_KEYS = ["ago", "in", "am", "pm"]
MEANING_KEYS = WEEKDAY_KEYS + MONTH_KEYS + UNIT_KEYS + OTHER_KEYS

_cache = {}


def languages():
    """Language codes that have a data module on disk (sorted)."""
    d = os.path.join(REPO, "dateparser", "data", "date_translation_data")
    return sorted(f[:-3] for f in os.listdir(d) if f.endswith(".py") and f != "__init__.py")


def language_order():
    from dateparser.data.languages_info import language_order as lo
    return list(lo)


def raw_info(lang):
    """The `info` mapping of a language module, executed privately from the file: the specification must not share objects
    with the module the library imports (a library that edits its data in place would otherwise edit the specification too)."""
    if lang not in _cache:
        path = os.path.join(REPO, "dateparser", "data", "date_translation_data", lang + ".py")
        _cache[lang] = runpy.run_path(path)["info"]
    return _cache[lang]


def _merge(a, b):
    out = {}
    for k, v in a.items():
        if k in b:
            if isinstance(v, list):
                out[k] = list(v) + list(b[k])
            elif isinstance(v, dict):
                out[k] = _merge(v, b[k])
            else:
                out[k] = b[k]
        else:
            out[k] = v
    for k, v in b.items():
        if k not in a:
            out[k] = v
    return out


def locale_info(lang, locale=None):
    """Specification dict for a language (locale None) or one of its regional locales."""
    info = raw_info(lang)
    spec = info.get("locale_specific", {}).get(locale, {}) if locale else {}
    merged = _merge({k: v for k, v in info.items() if k != "locale_specific"}, spec)
    return merged


def all_locale_objects():
    """[(language, locale-or-None)] for the 205 languages and all their regional locales."""
    out = []
    for lang in languages():
        out.append((lang, None))
        for loc in sorted(raw_info(lang).get("locale_specific", {}) or {}):
            out.append((lang, loc))
    return out


def strip_accents(s):
    return "".join(c for c in unicodedata.normalize("NFKD", s) if unicodedata.category(c) != "Mn")


def listings(info, normalize=False):
    """{lower-cased (optionally accent-stripped) string: set of meaning keys it is listed under},
    over months, weekdays, units, ago/in/am/pm and relative-type phrases."""
    out = {}

    def add(s, key):
        s = s.lower()
        if normalize:
            s = strip_accents(s)
        out.setdefault(s, set()).add(key)

    for k in MEANING_KEYS:
        for s in info.get(k, []) or []:
            add(s, k)
    for k, vals in (info.get("relative-type") or {}).items():
        for s in vals:
            add(s, "rel:" + k)
    return out


def skip_words(info, normalize=False):
    out = set()
    for k in ("skip", "pertain"):
        for s in info.get(k, []) or []:
            s = s.lower()
            out.add(strip_accents(s) if normalize else s)
    return out
