"""./check <Cnn> [--tier quick|thorough] [--replay file] [--jobs N]

Shared runner: explores the property's declared bounded space exhaustively, applies the
known-findings file, confirms every violation class in a fresh process, writes evidence and
replay artefacts, and sets the exit status (0 held / 1 VIOLATION / 2 infrastructure error).
"""
import argparse
import hashlib
import importlib
import json
import multiprocessing as mp
import os
import random
import subprocess
import sys
import time
import traceback

from . import codec, target
from .target import InfraError

MAX_SAMPLES = 12
MAX_VIOL_PER_CLASS = 3


# ----------------------------------------------------------------------------- report
class Report:
    def __init__(self):
        self.evaluations = 0
        self.nontrivial = set()
        self.hist = {}
        self.violations = {}      # class key -> {"cls":…, "count":n, "examples":[…]}
        self.samples = []
        self.subspaces = []
        self.extra = {}
        self.exhaustive = True
        self.notes = []

    def add_violation(self, v, case=None, sub=None):
        key = json.dumps(codec.enc(v["cls"]), sort_keys=True, ensure_ascii=False)
        slot = self.violations.setdefault(key, {"cls": v["cls"], "count": 0, "examples": []})
        slot["count"] += v.get("count", 1)
        for ex in v.get("examples") or [dict(v, sub=sub, case=case)]:
            if len(slot["examples"]) < MAX_VIOL_PER_CLASS:
                slot["examples"].append(ex)

    def merge_partial(self, p):
        self.evaluations += p["n"]
        self.nontrivial |= p["nt"]
        for k, c in p["hist"].items():
            self.hist[k] = self.hist.get(k, 0) + c
        for key, slot in p["viol"].items():
            mine = self.violations.setdefault(key, {"cls": slot["cls"], "count": 0, "examples": []})
            mine["count"] += slot["count"]
            for ex in slot["examples"]:
                if len(mine["examples"]) < MAX_VIOL_PER_CLASS:
                    mine["examples"].append(ex)


# ----------------------------------------------------------------------------- E1 pool
_MOD = None
_SPACES = None
_TIER = None
_SEED = None
_INITED = False
_HISTORY = []        # chunks this worker process has executed so far: the call history behind any state it carries


def _work(task):
    global _INITED
    si, lo, hi = task
    hist_before = list(_HISTORY)
    sub = _SPACES[si]
    if not _INITED:
        if hasattr(_MOD, "init_worker"):
            _MOD.init_worker(_TIER, _SEED)
        _INITED = True
        if os.environ.get("VERIF_COVERAGE"):
            from . import linecov
            linecov.enable(_MOD.ID)
    n = 0
    nt = set()
    hist = {}
    viol = {}
    samples = []
    run_case = _MOD.run_case
    name = sub.name
    try:
        for i in range(lo, hi):
            case = sub[i]
            res = run_case(name, case)
            if res is None:
                hist["not-applicable"] = hist.get("not-applicable", 0) + 1
                continue
            outcome, nontriv, v = res
            n += 1
            hist[outcome] = hist.get(outcome, 0) + 1
            if nontriv:
                nt.add(hash(repr(case)))
            if i == lo and lo == 0 and len(samples) < 2:
                smp = {"sub": name, "index": i, "case": codec.enc(case), "outcome": outcome}
                if hasattr(_MOD, "describe"):
                    smp["input"] = codec.enc(_MOD.describe(name, case))
                samples.append(smp)
            if v is not None:
                key = json.dumps(codec.enc(v["cls"]), sort_keys=True, ensure_ascii=False)
                slot = viol.setdefault(key, {"cls": v["cls"], "count": 0, "examples": []})
                slot["count"] += 1
                if len(slot["examples"]) < MAX_VIOL_PER_CLASS:
                    slot["examples"].append(dict(v, sub=name, index=i, case=case, worker_history=hist_before + [[si, lo, i]]))
    except Exception:
        return {"error": "harness error in %s[%d]: %s" % (name, i, traceback.format_exc())}
    _HISTORY.append([si, lo, hi])
    if os.environ.get("VERIF_COVERAGE"):
        from . import linecov
        linecov.flush()
    return {"si": si, "lo": lo, "hi": hi, "n": n, "nt": nt, "hist": hist, "viol": viol,
            "samples": samples}


def explore_spaces(mod, tier, seed, jobs, deadline_s, report):
    """Enumerate every index of every declared sub-space on a pool of forked workers."""
    global _MOD, _SPACES, _TIER, _SEED
    spaces = mod.spaces(tier, seed)
    _MOD, _SPACES, _TIER, _SEED = mod, spaces, tier, seed
    chunk = getattr(mod, "CHUNK", 500)
    # sub-spaces a module wants executed in freshly forked workers (one chunk per worker process, forked from this parent, which has
    # parsed nothing): {name: chunk size}.  For two-call histories whose FIRST call must be the first use of some process-wide object.
    fresh = dict(getattr(mod, "FRESH_PROCESS_SUBSPACES", {}) or {})
    tasks, fresh_tasks = [], []
    for si, sp in enumerate(spaces):
        if sp.name in fresh:
            c = fresh[sp.name]
            for lo in range(0, sp.size, c):
                fresh_tasks.append((si, lo, min(sp.size, lo + c)))
            continue
        c = max(1, min(chunk, -(-sp.size // (jobs * 4)) or 1))
        for lo in range(0, sp.size, c):
            tasks.append((si, lo, min(sp.size, lo + c)))
    random.Random(seed).shuffle(tasks)
    done = [0] * len(spaces)
    t0 = time.time()
    ctx = mp.get_context("fork")
    hit_deadline = False
    for tlist, per_child in ((fresh_tasks, 1), (tasks, getattr(mod, "TASKS_PER_CHILD", 400))):
        if not tlist or hit_deadline:
            continue
        with ctx.Pool(jobs, maxtasksperchild=per_child) as pool:
            it = pool.imap_unordered(_work, tlist)
            for _ in range(len(tlist)):
                remaining = deadline_s - (time.time() - t0)
                if remaining <= 0:
                    hit_deadline = True
                    break
                try:
                    p = it.next(timeout=remaining)
                except mp.TimeoutError:
                    hit_deadline = True
                    break
                if "error" in p:
                    pool.terminate()
                    raise InfraError(p["error"])
                report.merge_partial(p)
                done[p["si"]] += p["hi"] - p["lo"]
                for s_ in p["samples"]:
                    if len(report.samples) < MAX_SAMPLES:
                        report.samples.append(s_)
            if hit_deadline:
                pool.terminate()
    for si, sp in enumerate(spaces):
        d = sp.describe()
        d["executed"] = done[si]
        d["complete"] = done[si] == sp.size
        report.subspaces.append(d)
        if not d["complete"]:
            report.exhaustive = False
    if hit_deadline:
        report.notes.append("deadline of %ds hit; incomplete sub-spaces are marked" % deadline_s)


# ----------------------------------------------------------------------------- findings
def load_findings(pid):
    path = os.path.join(target.VERIF, "known_findings.jsonl")
    out = []
    if os.path.exists(path):
        for line in open(path, encoding="utf-8"):
            line = line.strip()
            if not line or line.startswith("#"):
                continue
            rec = json.loads(line)
            if rec.get("property") == pid and rec.get("status") == "known":
                out.append(rec)
    return out


def default_match(finding, cls):
    m = finding.get("match") or {}
    if not m:
        return False
    enc = codec.enc(cls)
    for k, v in m.items():
        got = enc.get(k)
        if isinstance(v, dict) and "$in" in v:
            if got not in v["$in"]:
                return False
        elif got != v:
            return False
    return True


# ----------------------------------------------------------------------------- replay
def write_replay(pid, slot, tier, seed):
    d = os.path.join(target.OUT, "replays", pid)
    os.makedirs(d, exist_ok=True)
    ex = slot["examples"][0]
    key = json.dumps(codec.enc(slot["cls"]), sort_keys=True, ensure_ascii=False)
    h = hashlib.sha1(key.encode()).hexdigest()[:12]
    path = os.path.join(d, h + ".json")
    rec = {
        "property": pid, "class": slot["cls"], "count_in_run": slot["count"],
        "sub": ex.get("sub"), "index": ex.get("index"), "case": ex.get("case"),
        "expected": ex.get("expected"), "observed": ex.get("observed"),
        "detail": ex.get("detail"),
        "worker_history": ex.get("worker_history"),
        "env": {"TZ": os.environ.get("TZ"), "PYTHONHASHSEED": os.environ.get("PYTHONHASHSEED"),
                "tier": tier, "seed": seed, "repo": target.REPO, "repo_head": target.git_head()},
        "how_to": "./check %s --replay %s" % (pid, path),
        "more_examples": [{"sub": e.get("sub"), "case": e.get("case"), "expected": e.get("expected"),
                           "observed": e.get("observed")} for e in slot["examples"][1:]],
    }
    with open(path, "w", encoding="utf-8") as f:
        f.write(codec.dumps(rec, indent=1))
    return path


def confirm_in_fresh_process(pid, path):
    """Re-execute the recorded case without the explorer, in a fresh interpreter."""
    try:
        r = subprocess.run([os.path.join(target.VERIF, "check"), pid, "--replay", path],
                           capture_output=True, text=True, timeout=600)
    except subprocess.TimeoutExpired:
        return False, "replay timed out"
    return r.returncode == 1, (r.stdout + r.stderr)[-2000:]


def recover_history_in_fresh_process(pid, path):
    """The case alone did not reproduce: search (in a fresh interpreter) for the calls of the worker's history that it needs."""
    try:
        r = subprocess.run([os.path.join(target.VERIF, "check"), pid, "--recover-history", path],
                           capture_output=True, text=True, timeout=900)
    except subprocess.TimeoutExpired:
        return False, "history recovery timed out"
    return r.returncode == 1, (r.stdout + r.stderr)[-2000:]


def _same_class(v, rec):
    return v is not None and json.dumps(codec.enc(v["cls"]), sort_keys=True, ensure_ascii=False) == \
        json.dumps(codec.enc(rec["class"]), sort_keys=True, ensure_ascii=False)


def do_recover_history(mod, path, budget_s=240):
    """Delta-debug the recorded worker history (chunks, then single cases) down to a short list of earlier cases after which the
    case violates the property.  Every trial runs in a child forked from this pristine process.  Rewrites the replay file."""
    rec = codec.loads(open(path, encoding="utf-8").read())
    wh = rec.get("worker_history")
    if not wh or hasattr(mod, "replay") or not hasattr(mod, "run_case"):
        return 0
    env = rec.get("env", {})
    tier, seed = env.get("tier", "quick"), env.get("seed", 0)
    if hasattr(mod, "selfcheck"):
        mod.selfcheck()
    spaces = mod.spaces(tier, seed)
    if hasattr(mod, "init_worker"):
        mod.init_worker(tier, seed)
    by_name = {sp.name: k for k, sp in enumerate(spaces)}
    t0 = time.time()
    trials = [0]

    def trial(items):
        """items: list of [si, lo, hi] ranges.  True if, after running them in order, the case violates with the recorded class."""
        trials[0] += 1
        r, w = os.pipe()
        pid = os.fork()
        if pid == 0:
            ok = b"0"
            try:
                os.close(r)
                for si, lo, hi in items:
                    sp = spaces[si]
                    for i in range(lo, hi):
                        try:
                            mod.run_case(sp.name, sp[i])
                        except Exception:  # noqa: BLE001
                            pass
                res = mod.run_case(rec["sub"], rec["case"])
                if _same_class(res[2] if res else None, rec):
                    ok = b"1"
            except BaseException:  # noqa: BLE001
                ok = b"0"
            finally:
                try:
                    os.write(w, ok)
                finally:
                    os._exit(0)
        os.close(w)
        with os.fdopen(r, "rb") as f:
            data = f.read()
        os.waitpid(pid, 0)
        return data == b"1"

    def ddmin(items):
        n = 2
        while len(items) >= 2 and time.time() - t0 < budget_s:
            size = max(1, len(items) // n)
            subsets = [items[k:k + size] for k in range(0, len(items), size)]
            reduced = False
            for k in range(len(subsets)):
                if time.time() - t0 >= budget_s:
                    break
                comp = [x for j, sub in enumerate(subsets) if j != k for x in sub]
                if comp and trial(comp):
                    items = comp
                    n = max(n - 1, 2)
                    reduced = True
                    break
            if not reduced:
                if n >= len(items):
                    break
                n = min(len(items), n * 2)
        return items

    items = [list(x) for x in wh if x[2] > x[1]]
    if trial([]):
        print("history recovery: the case reproduces without any history")
        return 1
    if not trial(items):
        print("history recovery: not reproduced even after the whole recorded worker history (%d chunks): genuinely unstable" % len(items))
        return 0
    items = ddmin(items)
    cases = [[si, i, i + 1] for si, lo, hi in items for i in range(lo, hi)]
    if len(cases) <= 5000:
        cases = ddmin(cases)
    history = [{"sub": spaces[si].name, "index": lo, "case": spaces[si][lo]} for si, lo, hi in cases] if len(cases) <= 200 else None
    rec["history"] = history
    rec["history_ranges"] = [[spaces[si].name, lo, hi] for si, lo, hi in cases] if history is None else None
    rec["history_recovery"] = {"trials": trials[0], "seconds": round(time.time() - t0, 1), "cases_in_history": sum(hi - lo for _, lo, hi in cases)}
    rec["how_to"] = rec["how_to"] + "   (runs the listed history of earlier calls first, in a fresh process)"
    with open(path, "w", encoding="utf-8") as f:
        f.write(codec.dumps(rec, indent=1))
    print("history recovery: the case violates the property after %d earlier call(s) of the same check (%d trials)" % (
        rec["history_recovery"]["cases_in_history"], trials[0]))
    return 1


def do_replay(mod, path):
    rec = codec.loads(open(path, encoding="utf-8").read())
    if hasattr(mod, "selfcheck"):
        mod.selfcheck()
    if hasattr(mod, "init_worker"):
        mod.init_worker(rec.get("env", {}).get("tier", "quick"), rec.get("env", {}).get("seed", 0))
    if hasattr(mod, "replay"):
        v = mod.replay(rec)
    else:
        if rec.get("history") or rec.get("history_ranges"):
            # the violation needs earlier calls: make them first (same process, in order)
            if rec.get("history"):
                for h in rec["history"]:
                    try:
                        mod.run_case(h["sub"], h["case"])
                    except Exception:  # noqa: BLE001
                        pass
            else:
                env = rec.get("env", {})
                sps = {sp.name: sp for sp in mod.spaces(env.get("tier", "quick"), env.get("seed", 0))}
                for name, lo, hi in rec["history_ranges"]:
                    for i in range(lo, hi):
                        try:
                            mod.run_case(name, sps[name][i])
                        except Exception:  # noqa: BLE001
                            pass
        res = mod.run_case(rec["sub"], rec["case"])
        v = res[2] if res else None
    print("replay %s sub=%s" % (rec["property"], rec.get("sub")))
    if rec.get("history"):
        print("  after:    %d earlier call(s): %s" % (len(rec["history"]), codec.dumps([h["case"] for h in rec["history"][:6]])[:600]))
    print("  case:     %s" % codec.dumps(rec.get("case")))
    if v is None:
        print("  result:   property holds on this case (no violation reproduced)")
        return 0
    print("  expected: %s" % codec.dumps(v.get("expected")))
    print("  observed: %s" % codec.dumps(v.get("observed")))
    if v.get("detail"):
        print("  detail:   %s" % codec.dumps(v.get("detail")))
    print("  class:    %s" % codec.dumps(v.get("cls")))
    print("VIOLATION property=%s replay=%s" % (rec["property"], path))
    return 1


# ----------------------------------------------------------------------------- evidence
def write_evidence(mod, report, tier, seed, wall, n_viol, known_hit, flaky):
    pid = mod.ID
    cov = {
        "evaluations": report.evaluations,
        "distinct_nontrivial": len(report.nontrivial) if isinstance(report.nontrivial, set) else int(report.nontrivial),
        "rule": mod.RULE,
        "samples": report.samples[:MAX_SAMPLES],
        "exhaustive": bool(report.exhaustive),
        "subspaces": report.subspaces,
        "outcome_histogram": dict(sorted(report.hist.items())),
        "known_findings_hit": known_hit,
        "flaky": flaky,
        "violation_classes": [
            {"cls": codec.enc(s["cls"]), "count": s["count"]} for s in list(report.violations.values())[:50]
        ],
        "notes": report.notes,
        "repo": target.REPO,
        "repo_head": target.git_head(),
        "technique": getattr(mod, "TECHNIQUE", ""),
    }
    cov.update(report.extra)
    ev = {
        "property_id": pid, "tier": tier, "seed": seed, "level": mod.LEVEL,
        "coverage": cov, "assumptions": list(getattr(mod, "ASSUMPTIONS", [])),
        "wall_s": round(wall, 2), "violations": n_viol,
    }
    d = os.path.join(target.OUT, "evidence")
    os.makedirs(d, exist_ok=True)
    tmp = os.path.join(d, ".%s.json.tmp" % pid)
    with open(tmp, "w", encoding="utf-8") as f:
        json.dump(ev, f, ensure_ascii=False, indent=1, default=str)
    os.replace(tmp, os.path.join(d, "%s.json" % pid))


# ----------------------------------------------------------------------------- main
def main(argv=None):
    ap = argparse.ArgumentParser()
    ap.add_argument("prop")
    ap.add_argument("--tier", default=os.environ.get("VERIF_TIER") or "quick", choices=["quick", "thorough"])
    ap.add_argument("--replay")
    ap.add_argument("--recover-history")
    ap.add_argument("--jobs", type=int, default=int(os.environ.get("VERIF_JOBS") or 0) or (os.cpu_count() or 4))
    ap.add_argument("--no-confirm", action="store_true")
    a = ap.parse_args(argv)
    pid = a.prop.upper()
    try:
        seed = int(os.environ.get("VERIF_SEED") or 0)
    except ValueError:
        seed = 0
    t0 = time.time()
    try:
        target.ensure()
        mod = importlib.import_module("vf.props.%s" % pid.lower())
        if a.replay:
            return do_replay(mod, a.replay)
        if a.recover_history:
            return do_recover_history(mod, a.recover_history)
        deadline = int(os.environ.get("VERIF_DEADLINE_S") or (1500 if a.tier == "quick" else 7200))
        old = os.path.join(target.OUT, "replays", pid)
        if os.path.isdir(old):
            for fn in os.listdir(old):
                if fn.endswith(".json"):
                    os.unlink(os.path.join(old, fn))
        report = Report()
        if hasattr(mod, "selfcheck"):
            mod.selfcheck()
        if hasattr(mod, "run"):
            mod.run(a.tier, seed, a.jobs, deadline, report)
        else:
            explore_spaces(mod, a.tier, seed, a.jobs, deadline, report)
    except InfraError as e:
        print("INFRASTRUCTURE ERROR (%s): %s" % (pid, e), file=sys.stderr)
        return 2
    except Exception:
        print("INFRASTRUCTURE ERROR (%s): %s" % (pid, traceback.format_exc()), file=sys.stderr)
        return 2

    findings = load_findings(pid)
    matcher = getattr(mod, "match_finding", default_match)
    known_hit = {}
    lines = []
    flaky = 0
    n_viol = 0
    recovered = 0
    history_dependent = 0
    for key, slot in report.violations.items():
        f = next((f for f in findings if matcher(f, slot["cls"])), None)
        if f is not None:
            k = known_hit.setdefault(f["id"], {"what": f["what"], "count": 0})
            k["count"] += slot["count"]
            continue
        path = write_replay(pid, slot, a.tier, seed)
        if not a.no_confirm and getattr(mod, "CONFIRM", True) and n_viol < 8:
            ok, out = confirm_in_fresh_process(pid, path)
            if not ok and recovered < 3:
                # the outcome depends on what this worker executed before: find those calls; the property quantifies over every
                # call whatever came earlier, so a case that violates it after a replayable history of real API calls is a violation
                recovered += 1
                ok, out2 = recover_history_in_fresh_process(pid, path)
                out += out2
                if ok:
                    ok, out3 = confirm_in_fresh_process(pid, path)
                    out += out3
                    if ok:
                        history_dependent += 1
            if not ok:
                flaky += 1
                print("FLAKY (not reproduced in a fresh process, not reported as violation): %s\n%s"
                      % (path, out), file=sys.stderr)
                continue
        n_viol += 1
        lines.append("VIOLATION property=%s replay=%s" % (pid, path))
        ex = slot["examples"][0]
        print("  class=%s count=%d\n    case=%s\n    expected=%s\n    observed=%s" % (
            key, slot["count"], codec.dumps(ex.get("case"))[:400],
            codec.dumps(ex.get("expected"))[:300], codec.dumps(ex.get("observed"))[:300]))
    for fid, k in known_hit.items():
        print("KNOWN-FINDING: property=%s %s [%s, %d case(s) in this run]" % (pid, k["what"], fid, k["count"]))
    wall = time.time() - t0
    write_evidence(mod, report, a.tier, seed, wall, n_viol,
                   {fid: k["count"] for fid, k in known_hit.items()}, flaky)
    if history_dependent:
        print("  note: %d violation class(es) reproduce only after earlier calls of the same check; the replay files list those calls" % history_dependent)
    nt = len(report.nontrivial) if isinstance(report.nontrivial, set) else report.nontrivial
    print("%s tier=%s seed=%d evaluations=%d distinct_nontrivial=%d exhaustive=%s violations=%d known=%d flaky=%d wall=%.1fs" % (
        pid, a.tier, seed, report.evaluations, nt, report.exhaustive, n_viol, len(known_hit), flaky, wall))
    for s in report.subspaces:
        print("  sub %-28s size=%-9d executed=%-9d %s" % (s["name"], s["size"], s["executed"], "complete" if s["complete"] else "INCOMPLETE"))
    print("  outcomes: %s" % json.dumps(dict(sorted(report.hist.items())), ensure_ascii=False))
    for n in report.notes:
        print("  note: %s" % n)
    for ln in lines:
        print(ln)
    if flaky:
        # state-dependent outcome inside a long-lived worker: not this property's subject (C03's);
        # recorded in evidence, shown on stderr, never turned into an alarm.
        print("note (%s): %d violation class(es) did not reproduce in a fresh process" % (pid, flaky), file=sys.stderr)
    return 1 if n_viol else 0


if __name__ == "__main__":
    sys.exit(main())
