"""Preemption-bounded enumeration of the interleavings of two (or more) real first imports at file-operation granularity.

Each participant runs the real module-level code of timezone_parser.py (fresh alias package) on ONE shared scratch directory, on its
own thread, with its own process id (os.getpid is answered per thread, as two importing processes would see it).  Every file
operation the code performs inside the scratch directory - open, each write of an unbuffered file, close, pickle.load, os.replace /
rename / remove / unlink / stat / exists / fsync - is a scheduling point: the thread hands the baton to the controller *before* the
operation and continues only when chosen.  Exactly one thread runs at any time, so an execution is a function of the choice list.

Exploration (iterative context bounding, Musuvathi & Qadeer): run with the default policy (keep the running thread while it is
enabled, else the lowest id); then, for every scheduling point of every executed schedule, every alternative choice whose total
number of preemptions stays within the bound.  One schedule = one forked child of the pristine driver.
"""
import builtins
import io
import os
import pickle
import sys
import threading
import traceback


class _Done(Exception):
    pass


class Sched:
    def __init__(self, root, n):
        self.root = os.path.abspath(root) + os.sep
        self.n = n
        self.tls = threading.local()
        self.sem = [threading.Semaphore(0) for _ in range(n)]
        self.main = threading.Semaphore(0)
        self.status = ["new"] * n          # new / ready / done
        self.pending = [None] * n          # label of the operation each thread is about to perform
        self.trace = []                    # (enabled ids, chosen id, previously running id, label of the chosen thread's op)
        self.log = []
        self.write_fault = None            # (index of the write in this execution, "short" | "enospc")
        self.writes = 0

    # ---- thread side ---------------------------------------------------------------------------------------------------
    def me(self):
        return getattr(self.tls, "idx", None)

    def inside(self, path):
        try:
            p = os.path.abspath(os.fspath(path))      # no stat calls: those are hooked themselves
        except Exception:  # noqa: BLE001
            return False
        if isinstance(p, bytes):
            p = os.fsdecode(p)
        return p.startswith(self.root)

    def point(self, label):
        i = self.me()
        if i is None:
            return
        self.pending[i] = label
        self.status[i] = "ready"
        self.main.release()
        self.sem[i].acquire()
        self.log.append((i, label))

    def next_write_fault(self):
        k = self.writes
        self.writes += 1
        if self.write_fault is not None and self.write_fault[0] == k:
            return self.write_fault[1]
        return None

    def body(self, i, fn, results):
        self.tls.idx = i
        self.point("start")
        try:
            results[i] = ("ok", fn())
        except BaseException as e:  # noqa: BLE001
            results[i] = ("exc", type(e).__name__, str(e)[:200], "".join(traceback.format_exception_only(type(e), e))[-300:])
        self.status[i] = "done"
        self.tls.idx = None
        self.main.release()

    # ---- controller ----------------------------------------------------------------------------------------------------
    def run(self, fns, prefix):
        results = [None] * self.n
        threads = [threading.Thread(target=self.body, args=(i, fns[i], results), daemon=True) for i in range(self.n)]
        for t in threads:
            t.start()
        for _ in range(self.n):                       # every thread reaches its first point
            if not self.main.acquire(timeout=60):
                raise RuntimeError("a participant did not reach its first scheduling point")
        cur = None
        step = 0
        while True:
            enabled = [i for i in range(self.n) if self.status[i] == "ready"]
            if not enabled:
                break
            if step < len(prefix):
                ch = prefix[step]
                if ch not in enabled:
                    raise RuntimeError("replayed prefix diverged at step %d: %r not enabled (%r)" % (step, ch, enabled))
            else:
                ch = cur if cur in enabled else enabled[0]
            self.trace.append((enabled, ch, cur, self.pending[ch]))
            cur = ch
            step += 1
            self.status[ch] = "running"
            self.sem[ch].release()
            if not self.main.acquire(timeout=120):
                raise RuntimeError("participant %d neither reached a scheduling point nor finished (blocked outside the hooks?)" % ch)
        return results


# ---- hooks ----------------------------------------------------------------------------------------------------------------
class _Raw(io.RawIOBase):
    """Raw (unbuffered) file whose every write and whose close are scheduling points, and that can be told to fail: the
    k-th write of the execution is cut short (fewer bytes taken than offered - legal for a raw file, a buffered writer above it must
    retry) or raises ENOSPC.  A caller that asked for buffering gets the real io.BufferedWriter on top of this object."""

    def __init__(self, sched, raw, name):
        super().__init__()
        self._s, self._f, self._n = sched, raw, name

    def writable(self):
        return True

    def readable(self):
        return False

    def seekable(self):
        return self._f.seekable()

    def fileno(self):
        return self._f.fileno()

    def seek(self, *a):
        return self._f.seek(*a)

    def tell(self):
        return self._f.tell()

    def truncate(self, *a):
        return self._f.truncate(*a)

    def write(self, data):
        data = bytes(data)
        self._s.point("write %s %d" % (self._n, len(data)))
        fault = self._s.next_write_fault()
        if fault == "enospc":
            import errno
            raise OSError(errno.ENOSPC, "No space left on device (injected)")
        if fault == "short" and len(data) > 1:
            return self._f.write(data[:len(data) // 2])
        return self._f.write(data)

    def close(self):
        if not self.closed:
            if not self._f.closed:
                self._s.point("close %s" % self._n)
            try:
                self._f.close()
            finally:
                super().close()

    @property
    def name(self):
        return self._f.name


class _File:
    """Unbuffered file whose every write and whose close are scheduling points."""

    def __init__(self, sched, raw, name):
        self._s, self._f, self._n = sched, raw, name

    def write(self, data):
        self._s.point("write %s %d" % (self._n, len(data)))
        return self._f.write(data)

    def close(self):
        if not self._f.closed:
            self._s.point("close %s" % self._n)
        return self._f.close()

    def __enter__(self):
        return self

    def __exit__(self, *a):
        self.close()

    def __getattr__(self, k):
        return getattr(self._f, k)

    def __iter__(self):
        return iter(self._f)


def install(sched, pids):
    """Patch the file operations (process-wide; they only act for registered threads and paths inside the scratch directory)."""
    real_open = builtins.open
    names = {}

    def short(p):
        return os.path.basename(os.fspath(p))

    def hooked_open(file, mode="r", *a, **k):
        if sched.me() is not None and isinstance(file, (str, bytes, os.PathLike)) and sched.inside(file):
            sched.point("open %s %s" % (short(file), mode))
            if any(c in mode for c in "wax+") and "b" in mode:
                k = dict(k)
                want = a[0] if a else k.pop("buffering", -1)
                k["buffering"] = 0
                raw = _Raw(sched, real_open(file, mode, **k), short(file))
                if want == 0:
                    return raw                   # the caller asked for an unbuffered file: it sees short writes itself
                return io.BufferedWriter(raw, buffer_size=want if want and want > 1 else io.DEFAULT_BUFFER_SIZE)
            return real_open(file, mode, *a, **k)
        return real_open(file, mode, *a, **k)

    builtins.open = hooked_open
    io.open = hooked_open

    def wrap1(mod, name, label):
        real = getattr(mod, name)

        def f(path, *a, **k):
            if sched.me() is not None and isinstance(path, (str, bytes, os.PathLike)) and sched.inside(path):
                sched.point("%s %s" % (label, short(path)))
            return real(path, *a, **k)
        setattr(mod, name, f)

    for nm in ("remove", "unlink", "stat", "lstat", "replace", "rename", "link", "truncate", "utime", "chmod"):
        if hasattr(os, nm):
            wrap1(os, nm, nm)
    # os.path.exists/isfile go through os.stat (Python level), already a point
    real_load = pickle.load

    def load(file, *a, **k):
        if sched.me() is not None:
            sched.point("pickle.load %s" % short(getattr(file, "name", "?")))
        return real_load(file, *a, **k)
    pickle.load = load
    real_fsync = os.fsync

    def fsync(fd):
        if sched.me() is not None:
            sched.point("fsync")
        return real_fsync(fd)
    os.fsync = fsync
    base = os.getpid()

    def getpid():
        i = sched.me()
        return base if i is None else pids[i]
    os.getpid = getpid


def preemptions(trace, upto):
    """Number of preemptive switches among the first `upto` decisions."""
    n = 0
    for enabled, ch, cur, _ in trace[:upto]:
        if cur is not None and cur in enabled and ch != cur:
            n += 1
    return n


def alternatives(trace, prefix_len, bound):
    """Choice lists that differ from the executed one at exactly one later point and stay within the preemption bound."""
    out = []
    chosen = [t[1] for t in trace]
    for i in range(prefix_len, len(trace)):
        enabled, ch, cur, _ = trace[i]
        before = preemptions(trace, i)
        for alt in enabled:
            if alt == ch:
                continue
            cost = before + (1 if (cur is not None and cur in enabled and alt != cur) else 0)
            if cost <= bound:
                out.append(chosen[:i] + [alt])
    return out
