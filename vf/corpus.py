"""Inputs shared by the metamorphic properties (C10, C13, C18):
 (i) generated per-language partial/complete dates with known parts,
 (ii) the suite's own multilingual corpus: every string literal of tests/test_*.py (AST-extracted at run time)
      that parses under default settings with an explicit base — enumerated completely, not sampled."""
import ast
import glob
import multiprocessing as mp
import os
from datetime import datetime

from . import vocab
from .target import REPO

BASE = datetime(2001, 2, 3, 4, 5, 6)
PARTS = ("weekday", "day", "month", "year", "time")


def harvest_literals():
    out = set()
    for path in sorted(glob.glob(os.path.join(REPO, "tests", "test_*.py"))):
        try:
            tree = ast.parse(open(path, encoding="utf-8").read())
        except (SyntaxError, OSError):
            continue
        for node in ast.walk(tree):
            if isinstance(node, ast.Constant) and isinstance(node.value, str):
                s = node.value
                if 3 <= len(s) <= 100 and "\x00" not in s:
                    out.add(s)
    return sorted(out)


def _try(s):
    from . import api
    try:
        dd = api.gdd(s, None, None, None, {"RELATIVE_BASE": BASE})
    except Exception:  # noqa: BLE001
        return None
    if dd.date_obj is None:
        return None
    return (s, dd.locale)


_CORPUS = None


def corpus(jobs=None):
    """[(string, detected locale)] — literals that parse non-None with autodetection."""
    global _CORPUS
    if _CORPUS is None:
        lits = harvest_literals()
        ctx = mp.get_context("fork")
        with ctx.Pool(jobs or os.cpu_count() or 4) as pool:
            res = pool.map(_try, lits, chunksize=8)
        _CORPUS = [r for r in res if r is not None]
    return _CORPUS


def single_meaning_names(info, keys, normalize=True):
    """First name under each of `keys` that the vocabulary lists under exactly one meaning-bearing key,
    is not a skip/pertain word, contains a letter and no digit, and is not shadowed by being a
    sub-phrase rule (simplification key)."""
    lst = vocab.listings(info, normalize=normalize)
    lst_raw = vocab.listings(info, normalize=False)
    skip = vocab.skip_words(info, True) | vocab.skip_words(info, False)
    out = {}
    for k in keys:
        for name in info.get(k) or []:
            low = name.lower()
            n = vocab.strip_accents(low) if normalize else low
            if len(lst.get(n, ())) != 1 or len(lst_raw.get(low, ())) != 1:
                continue
            if n in skip or low in skip:
                continue
            if any(ch.isdigit() for ch in name) or not any(ch.isalpha() for ch in name):
                continue
            if len(name) < 3 or any(ch in name for ch in ".'’()"):
                continue
            out[k] = name
            break
    return out


_GEN = None


def generated():
    """[{lang, string, parts:set, layout}] — every non-empty subset of PARTS in 3 layouts for every language
    that has a single-meaning month and weekday name.  Values: Wednesday-ish weekday name index 2, day 17,
    month index 4 (May-ish), year 2013, time 10:45."""
    global _GEN
    if _GEN is not None:
        return _GEN
    out = []
    for lang in vocab.languages():
        info = vocab.locale_info(lang)
        mon = single_meaning_names(info, [vocab.MONTH_KEYS[4]]).get(vocab.MONTH_KEYS[4])
        wd = single_meaning_names(info, [vocab.WEEKDAY_KEYS[4]]).get(vocab.WEEKDAY_KEYS[4])   # 2013-05-17 was a Friday
        if not mon or not wd:
            continue
        vals = {"weekday": wd, "day": "17", "month": mon, "year": "2013", "time": "10:45"}
        for mask in range(1, 32):
            parts = [p for i, p in enumerate(PARTS) if mask >> i & 1]
            layouts = {
                "natural": ["weekday", "day", "month", "year", "time"],
                "month-first": ["weekday", "month", "day", "year", "time"],
                "time-first": ["time", "weekday", "day", "month", "year"],
            }
            seen = set()
            for lname, order in layouts.items():
                s = " ".join(vals[p] for p in order if p in parts)
                if s in seen:
                    continue
                seen.add(s)
                out.append({"lang": lang, "string": s, "parts": tuple(parts), "layout": lname})
    _GEN = out
    return out
