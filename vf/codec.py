"""Typed JSON codec for cases, outcomes and replay files (datetimes, tuples, tzinfo, sets)."""
import json
from datetime import date, datetime, time, timedelta, timezone, tzinfo


def enc(o):
    if o is None or isinstance(o, (bool, int, float, str)):
        return o
    if isinstance(o, datetime):
        d = {"$dt": o.replace(tzinfo=None).isoformat()}
        if o.tzinfo is not None:
            off = o.utcoffset()
            d["off_s"] = None if off is None else off.total_seconds()
            d["tzname"] = o.tzname()
        return d
    if isinstance(o, date):
        return {"$date": o.isoformat()}
    if isinstance(o, time):
        return {"$time": o.isoformat()}
    if isinstance(o, timedelta):
        return {"$td": o.total_seconds()}
    if isinstance(o, tzinfo):
        return {"$tz": repr(o)}
    if isinstance(o, tuple):
        return {"$t": [enc(x) for x in o]}
    if isinstance(o, (set, frozenset)):
        return {"$set": sorted((enc(x) for x in o), key=repr)}
    if isinstance(o, list):
        return [enc(x) for x in o]
    if isinstance(o, dict):
        if all(isinstance(k, str) for k in o):
            return {("$$" + k if k.startswith("$") else k): enc(v) for k, v in o.items()}
        return {"$d": [[enc(k), enc(v)] for k, v in o.items()]}
    if isinstance(o, BaseException):
        return {"$exc": type(o).__name__, "msg": str(o)[:300]}
    if isinstance(o, type):
        return {"$type": o.__name__}
    return {"$repr": repr(o)[:300]}


def dec(o):
    if isinstance(o, list):
        return [dec(x) for x in o]
    if isinstance(o, dict):
        if "$dt" in o:
            d = datetime.fromisoformat(o["$dt"])
            if "off_s" in o and o["off_s"] is not None:
                nm = o.get("tzname")
                td = timedelta(seconds=o["off_s"])
                d = d.replace(tzinfo=timezone(td, nm) if isinstance(nm, str) else timezone(td))
            return d
        if "$date" in o:
            return date.fromisoformat(o["$date"])
        if "$time" in o:
            return time.fromisoformat(o["$time"])
        if "$td" in o:
            return timedelta(seconds=o["$td"])
        if "$t" in o:
            return tuple(dec(x) for x in o["$t"])
        if "$set" in o:
            return set(dec(x) for x in o["$set"])
        if "$d" in o:
            return {dec(k): dec(v) for k, v in o["$d"]}
        if "$repr" in o or "$tz" in o or "$exc" in o or "$type" in o:
            return o
        return {(k[2:] if k.startswith("$$") else k): dec(v) for k, v in o.items()}
    return o


def dumps(o, **kw):
    return json.dumps(enc(o), ensure_ascii=False, **kw)


def loads(s):
    return dec(json.loads(s))
