"""Thin access to the public API of the tree under test, with per-worker parser reuse."""
from .target import ensure

ensure()
import dateparser  # noqa: E402
from dateparser.date import DateDataParser  # noqa: E402
from dateparser.conf import SettingValidationError  # noqa: E402

_parsers = {}


def _freeze(o):
    if isinstance(o, dict):
        return tuple(sorted((k, _freeze(v)) for k, v in o.items()))
    if isinstance(o, (list, tuple)):
        return (type(o).__name__,) + tuple(_freeze(x) for x in o)
    # leaves by type and printed form: values that compare equal but are not the same setting (True / 1, two aware
    # datetimes of one instant in different zones) must not share a parser
    return (type(o).__name__, repr(o), str(getattr(o, "tzinfo", "")))


def P(languages=None, locales=None, region=None, settings=None, use_given_order=False, reuse=True):
    """A DateDataParser for this configuration; reused inside one worker unless reuse=False."""
    if not reuse:
        return DateDataParser(languages=languages, locales=locales, region=region,
                              settings=dict(settings) if settings else None,
                              use_given_order=use_given_order)
    key = (_freeze(languages), _freeze(locales), region, _freeze(settings), use_given_order)
    p = _parsers.get(key)
    if p is None:
        if len(_parsers) > 4000:
            _parsers.clear()
        p = _parsers[key] = DateDataParser(
            languages=languages, locales=locales, region=region,
            settings=dict(settings) if settings else None, use_given_order=use_given_order)
    return p


def gdd(s, languages=None, locales=None, region=None, settings=None, date_formats=None,
        use_given_order=False, reuse=True):
    return P(languages, locales, region, settings, use_given_order, reuse).get_date_data(s, date_formats)


def outcome_of(fn, *a, **k):
    """('ok', value) or ('exc', type name, message, innermost dateparser frame)."""
    try:
        return ("ok", fn(*a, **k))
    except BaseException as e:  # noqa: BLE001 - totality checks need everything
        if isinstance(e, (KeyboardInterrupt, SystemExit, MemoryError)):
            raise
        return ("exc", type(e).__name__, str(e)[:200], innermost_frame(e))


def innermost_frame(e):
    import os
    import traceback

    from .target import REPO

    site = None
    for fs in traceback.extract_tb(e.__traceback__):
        fn = os.path.realpath(fs.filename)
        if fn.startswith(REPO + os.sep):
            site = "%s:%s" % (os.path.relpath(fn, REPO), fs.name)
    return site
