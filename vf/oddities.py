"""Strings that are not in any property's "standard" family but that the library accepts or rejects through its lenient paths:
24-hour values with a meridian, out-of-range fields, unusual zone spellings, other languages, relative phrases with decimals ...
Used as the *first* call of two-call histories: what a standard string parses to must not depend on what odd string the
process parsed just before (caches keyed by "the last thing that matched" are the typical way that breaks)."""

ODD = [
    # lenient clock times
    "December 23, 2010, 16:50 pm", "March 5, 2024 00:15 AM", "13:30 PM", "13 pm", "24:00", "23:59:60", "0:0", "1.2.3", "99:99",
    "10:30:45.123456", "12 am", "12:07 AM", "3:30 PM", "March 5, 2024 3:30:15 PM", "15h30", "10.45", "noon", "midnight", "10:45:00,500",
    # odd dates
    "Feb 30", "31/12/9999", "13/13/2013", "12.12.12", "1-1-1", "20140101", "010199", "29 February 2023", "2014", "December 9999",
    "00/11/2015", "Tuesday", "31 Dec", "1 January", "Friday, June 2015",
    # zones in every spelling family
    "2014-05-05 10:00 UTC", "2014-05-05 10:00 UTC+05:30", "2014-05-05 10:00 GMT-9", "Fri Sep 23 2016 10:34:51 GMT+0800 (CST)",
    "2014-05-05 10:00 CST", "2014-05-05 10:00 Z", "2014-05-05 10:00 +9999", "2014-05-05 10:00 -0330", "2014-05-05 10:00 EST",
    "10:00 UTC", "at UTC",
    # relative phrases
    "1.5 months ago", "in 1,5 hours", "yesterday 25:00", "2 hours ago EST", "in 2 days", "1 hour ago", "3 weeks ago", "now",
    # other languages and scripts
    "5 de marzo de 2021", "le 2 mars 2015 à 10h30", "2 марта 2015 г.", "٣ مارس ٢٠١٥", "2015年3月2日", "4 décembre 2015", "mar 3 mars",
    # numbers
    "1000000000", "-1000000000", "1000000000123", "12", "0",
    # redundant or displaced fields (a number first taken for one part and then displaced by a later token)
    "10 11 12 2013", "12/13/14 2015", "July 4 76 1976", "32 January 2015", "2015 2016", "March April 2015", "Monday Tuesday", "10:30 11:30",
    "15 15 March 2015", "5 6 7 8",
    # garbage
    "", "(", "zzzz qqqq", "\x00",
]


def _calls():
    import dateparser
    from dateparser.calendars.hijri import HijriCalendar
    from dateparser.calendars.jalali import JalaliCalendar
    from dateparser.date import DateDataParser
    from dateparser.search import search_dates
    return [
        ("HijriCalendar(...).get_date()", lambda: HijriCalendar("1437-01-17 \u0647\u0640, 08:30 \u0645\u0633\u0627\u0621\u064b").get_date()),
        ("HijriCalendar numeric", lambda: HijriCalendar("17-01-1437").get_date()),
        ("JalaliCalendar(...).get_date()", lambda: JalaliCalendar("\u062c\u0645\u0639\u0647 \u0633\u06cc \u0627\u0645 \u0627\u0633\u0641\u0646\u062f \u06f1\u06f3\u06f8\u06f7").get_date()),
        ("search_dates en", lambda: search_dates("on 5 March 2015 and tomorrow at 10:30, see 01/02/2003", languages=["en"])),
        ("search_dates autodetect", lambda: search_dates("le 2 mars 2015 et hier")),
        ("date_formats week+weekday", lambda: dateparser.parse("2015 10 Mon", date_formats=["%Y %W %a"])),
        ("date_formats two-digit year", lambda: dateparser.parse("10.03.15", date_formats=["%d.%m.%y"])),
        ("explicit order YDM", lambda: dateparser.parse("2015-03-02", settings={"DATE_ORDER": "YDM"})),
        ("region AU", lambda: dateparser.parse("01/02/2003", languages=["en"], region="AU")),
        ("locale fr-CA", lambda: dateparser.parse("2003-02-01", locales=["fr-CA"])),
        ("no-spaces parser", lambda: dateparser.parse("20150302", settings={"PARSERS": ["no-spaces-time"]})),
        ("strict incomplete", lambda: dateparser.parse("March 2015", settings={"STRICT_PARSING": True})),
        ("failing settings", lambda: dateparser.parse("March 2015", settings={"DATE_ORDER": "XYZ"})),
        ("given order two languages", lambda: DateDataParser(languages=["de", "en"], use_given_order=True).get_date_data("02.03.2015")),
    ]


_CALLS = None


def calls():
    """Other entry points and configurations used as the FIRST call of a two-call history (each swallowed: only its side effects matter)."""
    global _CALLS
    if _CALLS is None:
        _CALLS = _calls()
    return _CALLS


N_CALLS = 14
