"""C01 — standard absolute formats and epoch numbers round-trip exactly (E1)."""
from datetime import datetime, timedelta

import pytz

from .. import api
from ..refmodel import cal
from ..space import Listed, Product, stripe

ID = "C01"
LEVEL = "exploration"
TECHNIQUE = "bounded-exhaustive enumeration of the (date, time, rendering, settings) choice tree against an independent renderer/oracle; two-call histories (an odd string first) carried inside the case"
RULE = ("cases = complete Cartesian products / full single-dimension sweeps listed under subspaces; "
        "a case is non-trivial when the library returned a datetime (the parse pipeline produced a value "
        "the oracle then had to agree with); distinct = distinct case tuples")
ASSUMPTIONS = [
    "the harness's own renderer defines the 'fixed family of standard formats'",
    "for a negative epoch number with a sub-second suffix the suffix is added to the (negative) whole seconds, as the existing suite pins",
    "pytz is the reference for TIMEZONE conversion of epoch instants",
]
CHUNK = 2000

FRAC = ["iso_frac%d" % k for k in range(1, 7)] + ["isoT_frac%d" % k for k in range(1, 7)]
REND_DATE = ["iso_date", "long_mdy", "long_dmy", "abbr_mdy", "abbr_dmy"]
REND_TIME = ["iso_min", "iso_sec", "isoT_sec", "isoT_min", "rfc2822", "abbr_12h", "abbr_dmy_sec", "long_12h_sec"]
RENDERINGS = REND_DATE + REND_TIME + FRAC


def render(r, y, m, d, H, M, S, us):
    """-> (string, expected datetime truncated to the written precision)"""
    Y = "%04d" % y
    iso = "%s-%02d-%02d" % (Y, m, d)
    mon = cal.MONTHS[m - 1].capitalize()
    abbr = mon[:3]
    h12 = H % 12 or 12
    ap = "AM" if H < 12 else "PM"
    if r == "iso_date":
        return iso, datetime(y, m, d)
    if r == "long_mdy":
        return "%s %d, %s" % (mon, d, Y), datetime(y, m, d)
    if r == "long_dmy":
        return "%d %s %s" % (d, mon, Y), datetime(y, m, d)
    if r == "abbr_mdy":
        return "%s %d, %s" % (abbr, d, Y), datetime(y, m, d)
    if r == "abbr_dmy":
        return "%02d %s %s" % (d, abbr, Y), datetime(y, m, d)
    if r == "iso_min":
        return "%s %02d:%02d" % (iso, H, M), datetime(y, m, d, H, M)
    if r == "isoT_min":
        return "%sT%02d:%02d" % (iso, H, M), datetime(y, m, d, H, M)
    if r == "iso_sec":
        return "%s %02d:%02d:%02d" % (iso, H, M, S), datetime(y, m, d, H, M, S)
    if r == "isoT_sec":
        return "%sT%02d:%02d:%02d" % (iso, H, M, S), datetime(y, m, d, H, M, S)
    if r == "rfc2822":
        dow = cal.WEEKDAYS_ABBR[cal.weekday(y, m, d)].capitalize()
        return "%s, %02d %s %s %02d:%02d:%02d" % (dow, d, abbr, Y, H, M, S), datetime(y, m, d, H, M, S)
    if r == "abbr_12h":
        return "%s %d, %s %d:%02d %s" % (abbr, d, Y, h12, M, ap), datetime(y, m, d, H, M)
    if r == "long_12h_sec":
        return "%s %d, %s %02d:%02d:%02d %s" % (mon, d, Y, h12, M, S, ap.lower()), datetime(y, m, d, H, M, S)
    if r == "abbr_dmy_sec":
        return "%d %s %s %02d:%02d:%02d" % (d, abbr, Y, H, M, S), datetime(y, m, d, H, M, S)
    if r.startswith("iso"):
        k = int(r[-1])
        sep = "T" if r.startswith("isoT") else " "
        digits = ("%06d" % us)[:k]
        tr = int(digits.ljust(6, "0"))
        return "%s%s%02d:%02d:%02d.%s" % (iso, sep, H, M, S, digits), datetime(y, m, d, H, M, S, tr)
    raise KeyError(r)


YEARS_CORE = [1, 2, 99, 100, 999, 1000, 1582, 1899, 1900, 1969, 1970, 1999, 2000, 2024, 2038, 2100, 9998, 9999]
MD_CORE = [(1, 1), (1, 31), (2, 28), (2, 29), (3, 1), (4, 30), (5, 5), (12, 12), (12, 31)]
TIMES_CORE = [(0, 0, 0, 0), (0, 59, 59, 999999), (11, 59, 59, 5), (12, 0, 0, 500000), (12, 30, 0, 99999),
              (13, 0, 1, 100000), (23, 59, 59, 999999)]
ALL_MD = [(m, d) for m in range(1, 13) for d in range(1, cal.month_len(2000, m) + 1)]
PREFS = [{"PREFER_DAY_OF_MONTH": a, "PREFER_MONTH_OF_YEAR": b, "PREFER_DATES_FROM": c}
         for a in ("current", "first", "last") for b in ("current", "first", "last")
         for c in ("current_period", "past", "future")]
BASES = [datetime(1871, 3, 31, 23, 59, 59), datetime(2096, 2, 29, 0, 0, 1)]

_ZONES = None


def zones():
    global _ZONES
    if _ZONES is None:
        from dateparser.timezones import timezone_info_list
        lib = []
        for name, sec in timezone_info_list[0]["timezones"]:
            # r"UTC\+05:30" -> TIMEZONE values "+0530" and "UTC+05:30"
            plain = name.replace("\\", "")
            lib.append(("lib", plain[3:].replace(":", ""), sec))
            lib.append(("lib", plain, sec))
        for name, sec in timezone_info_list[1]["timezones"]:
            if name in ("EST", "CET", "IST", "JST", "NZDT", "ACST", "AKDT", "NST", "WIB"):
                if not any(l[1] == name for l in lib):
                    lib.append(("lib", name, sec))
        # every tz-database name (common and deprecated/alias ones, incl. those that also look like library
        # abbreviations: CET, EST5EDT, Etc/GMT+5 ...): TIMEZONE resolves through the tz database first
        _ZONES = [("pytz", z, None) for z in pytz.all_timezones] + lib
    return _ZONES


def spaces(tier, seed):
    T = tier == "thorough"
    sp = []
    sp.append(Product("core", {"y": YEARS_CORE, "md": MD_CORE, "t": TIMES_CORE, "r": RENDERINGS,
                               "lang": ["en", "auto"]}))
    sp.append(Product("sweep-year", {"y": range(1, 10000), "md": [(1, 1), (2, 28), (12, 31)],
                                     "t": [(23, 59, 59, 123456)],
                                     "r": (RENDERINGS if T else ["iso_date", "isoT_sec", "rfc2822", "long_mdy", "abbr_12h", "iso_frac3"]),
                                     "lang": ["en"]}))
    sp.append(Product("sweep-monthday", {"y": [4, 100, 1900, 2000, 2023, 9996], "md": ALL_MD,
                                         "t": [(12, 34, 56, 789000)], "r": RENDERINGS, "lang": ["en"]}))
    sp.append(Product("sweep-minute-of-day", {"y": [2024], "md": [(2, 29), (12, 31)],
                                              "t": [(h, mi, s, 0) for h in range(24) for mi in range(60) for s in (0, 59)],
                                              "r": REND_TIME, "lang": ["en"]}))
    from ..oddities import ODD
    sp.append(Product("after-an-odd-string", {"odd": range(len(ODD)), "y": [7, 2024], "md": [(3, 5), (12, 31)], "t": [(3, 30, 0, 0), (15, 7, 9, 120000), (0, 15, 0, 0)],
                                              "r": RENDERINGS, "lang": ["en", "auto"]},
                      note="two-call history inside the case: an odd (lenient-path) string is parsed first, with the same language selection"))
    from ..oddities import N_CALLS
    sp.append(Product("after-another-entry-point", {"call": range(N_CALLS), "y": [7, 2024], "md": [(3, 5), (12, 31), (1, 13)], "t": [(3, 30, 0, 0), (15, 7, 9, 120000)],
                                                    "r": RENDERINGS, "lang": ["en", "auto"]},
                      note="two-call history inside the case: a calendar parser, search_dates, date_formats, an explicit order, a region, a locale, a failing call ... first; then the standard string with default settings"))
    us_vals = [0, 1, 5, 9, 10, 99, 100, 999, 1000, 99999, 100000, 123456, 500000, 999999, 900000, 90000, 9000, 900, 90]
    sp.append(Product("sweep-microsecond", {"y": [1, 2024, 9999], "md": [(12, 31)],
                                            "t": [(H, M, S, u) for (H, M, S) in ((0, 0, 0), (23, 59, 59), (12, 0, 9)) for u in us_vals],
                                            "r": FRAC, "lang": ["en", "auto"]}))
    sp.append(Product("prefer-irrelevant", {"y": [1, 999, 2000, 2023, 9999], "md": [(1, 31), (2, 28), (3, 1), (12, 31)],
                                            "t": [(0, 0, 0, 0), (23, 59, 59, 999999)],
                                            "r": ["iso_date", "isoT_sec", "rfc2822", "long_mdy", "abbr_12h", "long_dmy", "iso_frac6"],
                                            "lang": ["en"], "pref": range(len(PREFS)), "base": range(len(BASES))}))
    ords = range(1, cal.MAX_ORDINAL + 1)
    if T:
        sp.append(Product("calendar-all-days", {"ord": ords, "t": [(0, 0, 0, 0)], "r": ["iso_date", "long_mdy"], "lang": ["en"]}))
        sp.append(Product("all-seconds-of-day", {"y": [1, 1999, 2024, 9999], "md": [(2, 28), (12, 31)],
                                                 "t": [(h, mi, s, 0) for h in range(24) for mi in range(60) for s in range(60)],
                                                 "r": ["iso_sec", "isoT_sec", "rfc2822", "long_12h_sec"], "lang": ["en"]}))
    else:
        sp.append(Product("calendar-stripe", {"ord": stripe(ords, seed, 61), "t": [(0, 0, 0, 0)], "r": ["iso_date"], "lang": ["en"]},
                          note="days with ordinal = seed mod 61; thorough sweeps all 3,652,059 days"))
        sp.append(Product("all-seconds-of-day", {"y": [2024], "md": [(2, 29)],
                                                 "t": [(h, mi, s, 0) for h in range(24) for mi in range(60) for s in range(60)],
                                                 "r": ["isoT_sec", "long_12h_sec"], "lang": ["en"]}))
    # epoch numbers
    day_starts = range(10 ** 9 // 86400 + 1, 10 ** 10 // 86400)
    sp.append(Product("epoch-day-starts", {"day": day_starts if T else stripe(day_starts, seed, 16), "sec": [0, 86399],
                                           "suffix": ["", "000", "999999"], "neg": [False, True],
                                           "tz": [None] + (["Asia/Kathmandu", "America/St_Johns"] if T else [])}))
    sp.append(Product("epoch-seconds-of-day", {"day": [11574, 19782, 115740] if not T else [11574, 17000, 19782, 60000, 115740],
                                               "sec": range(86400), "suffix": [""], "neg": [False], "tz": [None]}))
    sp.append(Listed("epoch-range-ends", [{"n": n, "suffix": sfx, "neg": neg, "tz": tz}
                                          for n in (10 ** 9, 10 ** 9 + 1, 10 ** 9 + 2, 10 ** 10 - 1, 10 ** 10 - 2, 10 ** 10 - 3, 2 ** 31 - 1, 2 ** 31, 2 ** 32 - 1, 2 ** 32)
                                          for sfx in ("", "000", "001", "999", "000000", "000001", "999999")
                                          for neg in (False, True) for tz in (None, "UTC", "Pacific/Kiritimati", "-1200")]))
    sp.append(Product("epoch-suffix", {"n": [1234567890, 9999999999, 1000000000],
                                       "suffix": ["%03d" % i for i in range(1000)] + ["%06d" % (i * 1001 % 1000000) for i in range(1000)]
                                       + ["000%03d" % i for i in range(0, 1000, 7)],
                                       "neg": [False, True], "tz": [None]}))
    instants = [1000000000, 1109548800, 1206843000, 1206846600, 1256432400, 1256436000, 1300000000, 1352008800,
                1457852400, 1520000000, 1583020800, 1616893200, 1698541200, 2000000000, 2147483647, 2147483648,
                3000000000, 4102444800, 5000000000, 7258118400, 9000000000, 9999999999, 1719792000, 1735689599]
    # instants around every clock change (2020-2022) of the zone that is TIMEZONE, incl. both passes of a repeated hour;
    # also requested timezone-aware, so that the *instant* (not only the wall clock) is pinned
    from .c12 import REP, DST_DELTAS, transitions
    dstz = [z for z in (pytz.common_timezones if T else REP) if z in pytz.all_timezones_set and transitions(z)]
    sp.append(Product("epoch-dst-transitions", {"z": dstz, "t": range(6), "d": sorted(set(DST_DELTAS + [-1800, 1800, -3600, 3600, 3599, -3599])),
                                                "suffix": ["", "123456"], "aware": [None, True], "to": [None, "UTC"]}))
    sp.append(Product("epoch-timezones", {"n": instants, "suffix": ["", "123"], "neg": [False], "tz": [z[1] for z in zones()]}))
    return sp


EPOCH = datetime(1970, 1, 1)


def expected_epoch(n, suffix, neg, tz):
    secs = -n if neg else n
    us = 0
    if len(suffix) == 3:
        us = int(suffix) * 1000
    elif len(suffix) == 6:
        us = int(suffix)
    inst = EPOCH + timedelta(seconds=secs)
    if tz is None or tz == "UTC":
        loc = inst
    else:
        try:
            z = pytz.timezone(tz)
            loc = pytz.utc.localize(inst).astimezone(z).replace(tzinfo=None)
        except pytz.UnknownTimeZoneError:
            off = dict((zz[1], zz[2]) for zz in zones() if zz[0] == "lib")[tz]
            loc = inst + timedelta(seconds=off)
    return loc + timedelta(microseconds=us)


def run_epoch_dst(c):
    from .c12 import transitions
    tr = transitions(c["z"])
    if c["t"] >= len(tr):
        return None
    u = tr[c["t"]] + timedelta(seconds=c["d"])
    n = int((u - EPOCH).total_seconds())
    us = int(c["suffix"] or 0)
    st = {"TIMEZONE": c["z"]}
    if c["aware"]:
        st["RETURN_AS_TIMEZONE_AWARE"] = True
    if c["to"]:
        st["TO_TIMEZONE"] = c["to"]
    inst = pytz.utc.localize(u + timedelta(microseconds=us))
    exp = inst.astimezone(pytz.timezone(c["to"] or c["z"]))
    s = str(n) + c["suffix"]
    o = api.outcome_of(api.gdd, s, ["en"], None, None, st)
    kind = None
    if o[0] == "exc":
        kind, got = "exception:" + o[1], o[1:]
    else:
        r = got = o[1].date_obj
        if r is None:
            kind = "none"
        elif (r.tzinfo is not None) != bool(c["aware"]):
            kind = "awareness"
        elif r.replace(tzinfo=None) != exp.replace(tzinfo=None):
            kind = "wrong-wall-clock"
        elif r.tzinfo is not None and r.utcoffset() != exp.utcoffset():
            kind = "wrong-instant"
    if kind is None:
        return "epoch-ok", True, None
    return "epoch-bad", True, {"cls": {"form": "epoch-dst", "aware": bool(c["aware"]), "to": c["to"], "kind": kind},
                               "expected": exp, "observed": got, "detail": {"string": s, "settings": st}}


def run_case(sub, c):
    if sub == "epoch-dst-transitions":
        return run_epoch_dst(c)
    if sub.startswith("epoch"):
        n = c["n"] if "n" in c else c["day"] * 86400 + c["sec"]
        if not 10 ** 9 <= n < 10 ** 10:
            return None
        s = ("-" if c["neg"] else "") + str(n) + c["suffix"]
        st = {}
        if c["tz"]:
            st["TIMEZONE"] = c["tz"]
        if c["neg"]:
            st["PARSERS"] = ["negative-timestamp", "timestamp", "absolute-time"]
        try:
            exp = expected_epoch(n, c["suffix"], c["neg"], c["tz"])
        except OverflowError:
            return None
        o = api.outcome_of(api.gdd, s, ["en"], None, None, st or None)
        if o[0] == "ok":
            dd = o[1]
            got = (dd.date_obj, dd.period)
            if dd.date_obj == exp and dd.date_obj.tzinfo is None and dd.period == "day":
                return "epoch-ok", True, None
        else:
            got = o[1:]
        return "epoch-bad", got is not None, {
            "cls": {"form": "epoch", "neg": c["neg"], "suffix_len": len(c["suffix"]), "tz": bool(c["tz"]),
                    "kind": "exception:" + o[1] if o[0] == "exc" else "wrong-value"},
            "expected": (exp, "day"), "observed": got, "detail": {"string": s, "settings": st}}
    if "odd" in c:
        from ..oddities import ODD
        api.outcome_of(api.gdd, ODD[c["odd"]], None if c["lang"] == "auto" else ["en"], None, None, None)
    if "call" in c:
        from ..oddities import calls
        try:
            calls()[c["call"]][1]()
        except Exception:  # noqa: BLE001 - only the side effects of the first call matter here
            pass
    if "ord" in c:
        y, m, d = cal.from_ordinal(c["ord"])
    else:
        y = c["y"]
        m, d = c["md"]
        if not cal.valid(y, m, d):
            return None
    H, M, S, us = c["t"]
    r = c["r"]
    s, exp = render(r, y, m, d, H, M, S, us)
    st = None
    if "pref" in c:
        st = dict(PREFS[c["pref"]])
        st["RELATIVE_BASE"] = BASES[c["base"]]
    if c["lang"] == "en":
        o = api.outcome_of(api.gdd, s, ["en"], None, None, st)
    else:
        o = api.outcome_of(api.gdd, s, None, None, None, st)
    if o[0] == "ok":
        dd = o[1]
        got = (dd.date_obj, dd.period)
        if dd.date_obj == exp and dd.date_obj.tzinfo is None and dd.period == "day":
            return "ok", True, None
        nontriv = dd.date_obj is not None
    else:
        got = o[1:]
        nontriv = False
    yr = "y<1000" if y < 1000 else "y>=1000"
    return "bad", nontriv, {
        "cls": {"form": r, "lang": c["lang"], "year_class": yr, "pref": "pref" in c,
                "kind": "exception:" + o[1] if o[0] == "exc" else ("none" if got[0] is None else "wrong-value")},
        "expected": (exp, "day"), "observed": got, "detail": {"string": s, "settings": st}}


def describe(sub, c):
    if sub == "epoch-dst-transitions":
        return {"TIMEZONE": c["z"], "transition": c["t"], "offset_s": c["d"]}
    if sub.startswith("epoch"):
        n = c["n"] if "n" in c else c["day"] * 86400 + c["sec"]
        return {"string": ("-" if c["neg"] else "") + str(n) + c["suffix"], "TIMEZONE": c["tz"]}
    y, m, d = cal.from_ordinal(c["ord"]) if "ord" in c else (c["y"],) + tuple(c["md"])
    return {"string": render(c["r"], y, m, d, *c["t"])[0], "languages": c["lang"]}
