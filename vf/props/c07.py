"""C07 — DATE_ORDER and the locale's own order decide numeric dates (E1)."""
from datetime import datetime

from .. import api, vocab
from ..refmodel import cal
from ..space import Product

ID = "C07"
LEVEL = "exploration"
TECHNIQUE = "bounded-exhaustive enumeration of (order, separator, date, padding, time suffix, locale) against the order the setting / the locale data specifies"
RULE = ("cases = complete products listed under subspaces (all 6 orders x 4 separators x all 366 month-days x year grid; "
        "all 504 locale objects x order-separating dates); judged when the specified reading is a valid date; "
        "non-trivial = the library produced a datetime for a judged case; distinct = distinct case tuples")
ASSUMPTIONS = [
    "locale data files are the specification of each locale's own order (their derivation is C16's subject)",
    "a string written in another order than DATE_ORDER is judged only when both orders put the four-digit year in the same position",
]
CHUNK = 2000
ORDERS = ["DMY", "DYM", "MDY", "MYD", "YDM", "YMD"]
SEPS = ["-", "/", ".", " "]
ALL_MD = [(m, d) for m in range(1, 13) for d in range(1, cal.month_len(2000, m) + 1)]
YEARS = [1, 99, 930, 1000, 1200, 1999, 2000, 2024, 9999]
LOCS = vocab.all_locale_objects()
# dates that separate the six orders: d<=12 != m, d>12, d == m
SEP_DATES = [(2024, 3, 4), (2024, 4, 3), (1999, 12, 1), (2001, 1, 12), (2024, 2, 29), (2023, 5, 31), (1970, 10, 13),
             (2000, 6, 6), (9999, 12, 31), (101, 1, 2), (2010, 11, 12), (2015, 7, 25)]


def write(order, sep, y, m, d, pad, suffix):
    f = {"Y": "%04d" % y, "M": ("%02d" if pad else "%d") % m, "D": ("%02d" if pad else "%d") % d}
    return sep.join(f[c] for c in order) + suffix


def read(order, written_order, y, m, d):
    """What the three written fields mean under `order` (year position must coincide)."""
    vals = {"Y": y, "M": m, "D": d}
    fields = [vals[c] for c in written_order]
    got = dict(zip(order, fields))
    return got["Y"], got["M"], got["D"]


# one chunk = the nine cases of one locale, executed in a worker forked for that chunk alone: the case's first call is the process's first use of the locale
FRESH_PROCESS_SUBSPACES = {"explicit-order-then-the-locale's-own": 9}


def spaces(tier, seed):
    T = tier == "thorough"
    sp = []
    sp.append(Product("explicit-order-then-the-locale's-own", {"loc": range(len(LOCS)), "first_order": ["DMY", "YDM", "MDY"], "date": [(2024, 3, 4)], "plo": [None], "sep": ["/"],
                                                               "worder": ["DMY", "MDY", "YMD"]},
                      note="executed in freshly forked workers, one locale per worker (FRESH_PROCESS_SUBSPACES): the first call the process ever makes for the locale carries an explicit DATE_ORDER, the second (same case) none - "
                           "the second must be read in the locale's own order (MDY if it has none); what a locale object remembers from its first use must not be the caller's order"))
    sp.append(Product("explicit-order", {"order": ORDERS, "sep": SEPS, "y": YEARS, "md": ALL_MD, "pad": [True, False],
                                         "suffix": ["", " 10:30"], "written": ["same"]},
                      note="string written in the supplied order"))
    sp.append(Product("explicit-order-swapped-dm", {"order": ORDERS, "sep": SEPS, "y": [1, 2024, 9999], "md": ALL_MD, "pad": [True],
                                                    "suffix": ["", " 23:59:59"], "written": ["swapped"]},
                      note="string written with day and month exchanged; judged when the supplied order's reading is valid"))
    sp.append(Product("locale-own-order", {"loc": range(len(LOCS)), "date": SEP_DATES, "plo": [None, True, False],
                                           "sep": ["/", "-"] if not T else SEPS, "worder": ["DMY", "YMD", "MDY"]}))
    sp.append(Product("explicit-order-beats-locale", {"loc": range(len(LOCS)), "xorder": ORDERS, "plo": [None, True, False],
                                                      "date": [(2024, 3, 4), (1999, 12, 1), (2010, 11, 12)], "sep": ["/"]},
                      note="an explicitly supplied DATE_ORDER decides for every locale, whatever PREFER_LOCALE_DATE_ORDER says"))
    langs_with_order = sorted({l for l, loc in LOCS if loc is None})
    sp.append(Product("one-parser-two-languages", {"first": langs_with_order, "second": ["tl", "en", "fr", "zh"], "given": [True, False], "date": [(2020, 2, 3), (2010, 11, 12)]},
                      note="one DateDataParser(languages=[second, first]) instance, two calls: a month-name date that only `first` understands, then a numeric date "
                           "that `second` reads - in `second`'s own order (MDY when it has none), whatever locale the instance used before"))
    if T:
        sp.append(Product("sweep-year", {"order": ORDERS, "sep": ["-", "."], "y": range(1, 10000),
                                         "md": [(1, 2), (2, 29), (12, 31), (3, 4), (11, 12), (7, 25)], "pad": [True], "suffix": [""],
                                         "written": ["same"]}))
        sp.append(Product("locale-all-monthdays", {"loc": range(len(LOCS)), "md": ALL_MD, "plo": [None], "sep": ["/", "."],
                                                   "worder": ["DMY"]}))
    return sp


_NEG = None


def neg_offsets():
    """'HHMM' of every negative UTC offset the library lists (specification: timezones.py)."""
    global _NEG
    if _NEG is None:
        from dateparser.timezones import timezone_info_list
        _NEG = set()
        for name, sec in timezone_info_list[0]["timezones"]:
            if sec < 0 or "\\-" in name:
                n = name.replace("\\", "")
                _NEG.add(n[4:6] + n[7:9])
    return _NEG


def swap_dm(o):
    return o.replace("D", "x").replace("M", "D").replace("x", "M")


def run_two_languages(c):
    from dateparser.date import DateDataParser
    a, b = c["first"], c["second"]
    if a == b:
        return None
    ia, ib = vocab.locale_info(a), vocab.locale_info(b)
    mon = (ia.get("march") or [None])[0]
    if not mon:
        return None
    y, m, d = c["date"]
    p = DateDataParser(languages=[b, a], use_given_order=c["given"])
    r1 = api.outcome_of(p.get_date_data, "15 %s 2015" % mon)        # whatever it gives: it makes the instance visit `a`
    s = "%02d/%02d/%04d" % (m, d, y) if (ib.get("date_order") or "MDY") == "MDY" else None
    O = ib.get("date_order") or "MDY"
    s = write(O, "/", y, m, d, True, "")
    o = api.outcome_of(p.get_date_data, s)
    # the numeric string is read by the first language of the instance's order that accepts it; with the given order that is `b`
    if o[0] == "ok" and o[1].locale == b:
        if o[1].date_obj == datetime(y, m, d):
            return "ok", True, None
        return "bad", True, {"cls": {"form": "one-parser-two-languages", "locale": b, "expected_order": O, "kind": "wrong-value", "given": c["given"]},
                             "expected": (datetime(y, m, d), "day"), "observed": (o[1].date_obj, o[1].period, o[1].locale),
                             "detail": {"string": s, "languages": [b, a], "first_call": "15 %s 2015" % mon, "first_result": repr(r1[1:])[:200]}}
    if o[0] == "exc":
        return "bad", True, {"cls": {"form": "one-parser-two-languages", "locale": b, "expected_order": O, "kind": "exception:" + o[1], "given": c["given"]},
                             "expected": (datetime(y, m, d), "day"), "observed": o[1:], "detail": {"string": s, "languages": [b, a]}}
    return None      # answered by the other language (priority order): its own order applies, not judged here


def run_case(sub, c):
    if sub == "one-parser-two-languages":
        return run_two_languages(c)
    if sub == "explicit-order-then-the-locale's-own":
        lang, loc = LOCS[c["loc"]]
        y, m, d = c["date"]
        langs, locs = ([lang], None) if loc is None else (None, [loc])
        first = write(c["first_order"], c["sep"], y, m, d, True, "")
        api.outcome_of(api.gdd, first, langs, locs, None, {"DATE_ORDER": c["first_order"]})
        r = run_case("locale-own-order", {k: v for k, v in c.items() if k != "first_order"})
        if r is not None and r[2] is not None:
            r[2]["cls"]["form"] = sub
            r[2]["detail"]["first_call"] = {"string": first, "DATE_ORDER": c["first_order"]}
        return r
    if "order" in c:
        y = c["y"]
        m, d = c["md"]
        if not cal.valid(y, m, d):
            return None
        O = c["order"]
        W = O if c["written"] == "same" else swap_dm(O)
        s = write(W, c["sep"], y, m, d, c["pad"], c["suffix"])
        ey, em, ed = read(O, W, y, m, d)
        if not cal.valid(ey, em, ed):
            return None  # the supplied order's reading is not a valid date: statement is silent
        st = {"DATE_ORDER": O}
        langs, locs = ["en"], None
        cls = {"form": sub, "order": O, "sep": c["sep"]}
    else:
        lang, loc = LOCS[c["loc"]]
        info = vocab.locale_info(lang, loc)
        y, m, d = c["date"] if "date" in c else (2024,) + tuple(c["md"])
        if not cal.valid(y, m, d):
            return None
        W = c["worder"] if "worder" in c else c["xorder"]
        s = write(W, c["sep"], y, m, d, True, "")
        plo = c["plo"]
        own = info.get("date_order")
        O = own if (plo is not False and own) else "MDY"
        if "xorder" in c:
            O = c["xorder"]
        if O.index("Y") != W.index("Y"):
            return None
        ey, em, ed = read(O, W, y, m, d)
        if not cal.valid(ey, em, ed):
            return None
        st = {} if plo is None else {"PREFER_LOCALE_DATE_ORDER": plo}
        if "xorder" in c:
            st["DATE_ORDER"] = c["xorder"]
        langs, locs = ([lang], None) if loc is None else (None, [loc])
        cls = {"form": sub, "locale": loc or lang, "expected_order": O}
    exp = datetime(ey, em, ed)
    if s.endswith("10:30"):
        exp = exp.replace(hour=10, minute=30)
    elif s.endswith("23:59:59"):
        exp = exp.replace(hour=23, minute=59, second=59)
    o = api.outcome_of(api.gdd, s, langs, locs, None, st or None)
    if o[0] == "ok":
        dd = o[1]
        if dd.date_obj == exp and dd.period == "day":
            return "ok", True, None
        got = (dd.date_obj, dd.period, dd.locale)
        kind = "none" if dd.date_obj is None else "wrong-value"
        if dd.date_obj is not None and dd.date_obj.tzinfo is not None and W[-1] == "Y" and c.get("sep") == "-" \
                and not s.endswith(("10:30", "23:59:59")) and ("%04d" % y) in neg_offsets():
            kind = "trailing-year-read-as-utc-offset"
    else:
        got = o[1:]
        kind = "exception:" + o[1]
    cls["kind"] = kind
    return "bad", True, {"cls": cls, "expected": (exp, "day"), "observed": got,
                         "detail": {"string": s, "settings": st, "languages": langs, "locales": locs}}
