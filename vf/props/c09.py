"""C09 — PREFER_DATES_FROM selects the past/future occurrence, keeping named parts (E1)."""
from datetime import datetime, timedelta

import pytz

from .. import api
from ..refmodel import cal
from ..space import Product

ID = "C09"
LEVEL = "exploration"
TECHNIQUE = "bounded-exhaustive enumeration of (reference datetime, open-ended string, preference) against the inequalities and nearest-occurrence rules of the statement"
RULE = ("cases = complete products listed under subspaces (every day of 2019-2024 as reference x 7 weekdays / 12 months, "
        "all 366 day-month strings, all 1440 HH:MM, all two-digit years x reference years); non-trivial = the library "
        "produced a datetime; distinct = distinct case tuples")
ASSUMPTIONS = [
    "time-only strings are explored with TIMEZONE='UTC' (naive and aware-UTC bases) and with aware bases in DST-free zones equal to TIMEZONE",
    "for 'D Month' = 29 February nothing is demanded beyond the inequalities and the preserved day/month; two-digit-year forms exclude 29 February",
    "PREFER_DAY_OF_MONTH is left at its default or 'first' (the statement does not quantify over it)",
]
CHUNK = 1500
PREFS = ["past", "future", "current_period"]
DAY0 = datetime(2019, 1, 1)
ALL_BASE_DAYS = [DAY0 + timedelta(days=i) for i in range(2192)]  # 2019-01-01 .. 2024-12-31
TODS = [(0, 0, 0, 0), (13, 14, 15, 123456), (23, 59, 59, 999999)]
ALL_MD = [(m, d) for m in range(1, 13) for d in range(1, cal.month_len(2000, m) + 1)]
STR_ZONES = [("+0530", 330), ("-0800", -480), ("EDT", -240), ("UTC", 0), ("+1400", 840), ("-1200", -720), ("JST", 540)]
TZS = ["Asia/Kolkata", "Asia/Tokyo", "America/Phoenix", "Pacific/Kiritimati", "Pacific/Pago_Pago", "Asia/Kathmandu"]


def spaces(tier, seed):
    T = tier == "thorough"
    sp = []
    sp.append(Product("weekday-only", {"bday": range(2192), "tod": [1] if not T else [0, 1, 2], "wd": range(7), "abbr": [False],
                                       "pref": PREFS}, note="every day 2019-01-01..2024-12-31 as reference"))
    sp.append(Product("weekday-abbr", {"bday": range(0, 2192, 5), "tod": [0, 2], "wd": range(7), "abbr": [True], "pref": PREFS}))
    sp.append(Product("month-only", {"bday": range(2192), "tod": [1], "mon": range(1, 13), "pdom": [None, "first"], "pref": PREFS}))
    ends = sorted(set(list(range(0, 2192, 30)) + [i for i, b in enumerate(ALL_BASE_DAYS)
                                                  if (b + timedelta(days=1)).day == 1 or b.day == 1 or (b.month, b.day) == (2, 28)]))
    sp.append(Product("day-month", {"bday": range(2192) if T else ends, "tod": [1] if not T else [0, 1], "md": ALL_MD,
                                    "order": ["D Month", "Month D"] if not T else ["D Month"], "pref": PREFS},
                      note="all 366 day-month strings"))
    sp.append(Product("time-only-utc", {"bday": [58, 59, 424, 789, 1154, 2191, 0], "tod": [0, 1, 2], "aware": [False, True],
                                        "hm": range(1440), "pref": PREFS}, note="all 1440 HH:MM, TIMEZONE=UTC"))
    sp.append(Product("time-only-zones", {"bday": [59, 1154], "tod": [1], "tz": TZS, "hm": range(0, 1440, 7) if not T else range(1440),
                                          "pref": PREFS}))
    sp.append(Product("time-only-dst-zone-both-seasons", {"tz": ["America/New_York", "Europe/Berlin", "Australia/Sydney", "America/Sao_Paulo"], "first": ["winter", "summer"],
                                                          "hm": range(0, 1440, 15) if not T else range(1440), "pref": ["past", "future"], "aware": [True, False]},
                      note="two calls in one case: a reference time in January, then one in July (or the other way round), TIMEZONE a zone with daylight saving time; "
                           "both must give the nearest occurrence on the requested side"))
    sp.append(Product("time-only-own-zone", {"bday": [73, 804, 1900], "tod": [0, 1, 2], "tz": [None, "UTC"],
                                             "sz": range(len(STR_ZONES)), "hm": range(0, 1440, 7) if not T else range(1440), "pref": ["past", "future"]},
                      note="'HH:MM <zone>': the string's own zone decides the instant; TIMEZONE is unset or UTC (process zone UTC), so the naive reference is a UTC instant"))
    sp.append(Product("two-digit-year", {"by": range(1970, 2068) if T else [1970, 1971, 1999, 2000, 2001, 2024, 2066, 2067],
                                         "bmd": [(1, 1), (6, 15), (12, 31)], "yy": range(100),
                                         "form": ["D Month YY", "MM/DD/YY"], "md": [(1, 1), (6, 15), (6, 16), (12, 31), (3, 1)],
                                         "pref": PREFS}))
    from ..oddities import ODD
    sp.append(Product("after-an-odd-string", {"odd": range(len(ODD)), "inner": range(len(INNER)), "pref": PREFS},
                      note="two calls in one case: an odd string (lenient clock times, displaced or redundant fields, zones, other languages, garbage) with the same "
                           "settings first, then an incomplete string judged as in its own sub-space"))
    return sp


INNER = [("weekday-only", {"bday": 530, "tod": 1, "wd": 0, "abbr": False}), ("weekday-only", {"bday": 531, "tod": 1, "wd": 3, "abbr": False}),
         ("month-only", {"bday": 530, "tod": 1, "mon": 3, "pdom": None}), ("month-only", {"bday": 530, "tod": 1, "mon": 11, "pdom": None}),
         ("day-month", {"bday": 530, "tod": 1, "md": (3, 15), "order": "D Month"}), ("day-month", {"bday": 530, "tod": 1, "md": (12, 31), "order": "Month D"}),
         ("time-only-utc", {"bday": 530, "tod": 1, "aware": False, "hm": 630}), ("time-only-utc", {"bday": 530, "tod": 1, "aware": False, "hm": 1380}),
         ("two-digit-year", {"by": 2024, "bmd": (6, 15), "yy": 76, "form": "D Month YY", "md": (6, 16)})]


def dst_zone_case(c, pref):
    H, M = divmod(c["hm"], 60)
    s = "%02d:%02d" % (H, M)
    z = pytz.timezone(c["tz"])
    bases = {"winter": datetime(2021, 1, 15, 12, 30, 0), "summer": datetime(2021, 7, 15, 12, 30, 0)}
    order = [c["first"], "summer" if c["first"] == "winter" else "winter"]
    for season in order:
        b = bases[season]
        st = {"PREFER_DATES_FROM": pref, "TIMEZONE": c["tz"], "RELATIVE_BASE": z.localize(b) if c["aware"] else b}
        if not c["aware"]:
            # a naive reference is compared as UTC by the absolute parser (see the oracle log): give it as the UTC reading of the same instant
            st["RELATIVE_BASE"] = z.localize(b).astimezone(pytz.utc).replace(tzinfo=None)
        cand = b.replace(hour=H, minute=M, second=0, microsecond=0)
        if pref == "past":
            exp = cand if cand <= b else cand - timedelta(days=1)
        else:
            exp = cand if cand >= b else cand + timedelta(days=1)
        o = api.outcome_of(api.gdd, s, ["en"], None, None, st, None, False, False)
        got = o[1:] if o[0] == "exc" else o[1].date_obj
        if c["aware"]:
            ok = o[0] == "ok" and got is not None and got.replace(tzinfo=None) == exp
        else:
            # naive UTC reference: the result is a wall time in TIMEZONE on the day that makes it the nearest occurrence
            ok = o[0] == "ok" and got is not None and got.replace(tzinfo=None) == exp
        if not ok:
            return "bad", True, {"cls": {"form": "time-only-dst-zone", "pref": pref, "problem": "not the nearest occurrence", "season": season,
                                         "position": "first" if season == order[0] else "second", "aware_base": c["aware"]},
                                 "expected": exp, "observed": got, "detail": {"string": s, "settings": st, "calls_before": order[:order.index(season)]}}
    return "ok", True, None


def own_zone_case(c, b, pref):
    """'HH:MM <zone>' with PREFER_DATES_FROM: the result is the nearest instant not after / not before the reference instant whose
    wall clock in the string's zone is HH:MM (compared as instants; the reference is b read in TIMEZONE, UTC when unset)."""
    H, M = divmod(c["hm"], 60)
    zname, zmin = STR_ZONES[c["sz"]]
    s = "%02d:%02d %s" % (H, M, zname)
    st = {"RELATIVE_BASE": b, "PREFER_DATES_FROM": pref}
    if c["tz"]:
        st["TIMEZONE"] = c["tz"]
    ref = b
    # the one-day rule the library is known to apply (finding C09-K3): candidate = the reference's calendar day with the written
    # wall clock, moved by exactly one day if it lies on the wrong side of the reference
    cand = b.replace(hour=H, minute=M, second=0, microsecond=0)
    rule = cand - timedelta(minutes=zmin)
    if pref == "past" and ref < rule:
        rule -= timedelta(days=1)
    if pref == "future" and ref > rule:
        rule += timedelta(days=1)
    o = api.outcome_of(api.gdd, s, ["en"], None, None, st, None, False, False)
    problems = []
    got = None
    if o[0] == "exc":
        problems.append("exception " + o[1])
        got = o[1:]
    else:
        r = got = o[1].date_obj
        if r is None:
            problems.append("no result")
        elif r.tzinfo is None:
            problems.append("naive result for a string that names a zone")
        else:
            inst = (r - r.utcoffset()).replace(tzinfo=None)            # UTC instant of the result
            wall = inst + timedelta(minutes=zmin)                      # its wall clock in the string's zone
            if (wall.hour, wall.minute, wall.second, wall.microsecond) != (H, M, 0, 0):
                problems.append("time of day in the string's zone not preserved")
            elif pref == "past" and not inst <= ref:
                problems.append("after the reference")
            elif pref == "future" and not inst >= ref:
                problems.append("before the reference")
            elif abs(inst - ref) >= timedelta(days=1):
                problems.append("not the nearest occurrence")
    if not problems:
        return "ok", True, None
    if problems[0] in ("after the reference", "before the reference", "not the nearest occurrence") and inst == rule:
        problems = ["one-day rule: the candidate day is the reference's own calendar day, moved by at most one day, although the string's zone "
                    "puts the nearest occurrence on another day"]
    return "bad", True, {"cls": {"form": "time-only-own-zone", "pref": pref, "problem": problems[0], "TIMEZONE": c["tz"] or "unset"},
                         "expected": "nearest instant %s the reference %s (UTC) with wall clock %02d:%02d in %s" % ("not after" if pref == "past" else "not before", ref, H, M, zname),
                         "observed": got, "detail": {"string": s, "settings": st}}


def base_of(c):
    if "by" in c:
        return datetime(c["by"], c["bmd"][0], c["bmd"][1], 13, 14, 15)
    b = ALL_BASE_DAYS[c["bday"]]
    h, mi, s, us = TODS[c["tod"]]
    return b.replace(hour=h, minute=mi, second=s, microsecond=us)


def run_case(sub, c):
    if sub == "after-an-odd-string":
        from ..oddities import ODD
        isub, ic = INNER[c["inner"]]
        ic = dict(ic, pref=c["pref"])
        st0 = {"RELATIVE_BASE": base_of(ic), "PREFER_DATES_FROM": c["pref"], "TIMEZONE": "UTC"}
        if isub == "two-digit-year":
            st0["DATE_ORDER"] = "MDY"
        api.outcome_of(api.gdd, ODD[c["odd"]], ["en"], None, None, st0, None, False, False)
        r = run_case(isub, ic)
        if r is not None and r[2] is not None:
            r[2]["cls"]["after_an_odd_string"] = True
            r[2]["detail"]["first_call"] = {"string": ODD[c["odd"]], "settings": st0}
        return r
    if sub == "time-only-dst-zone-both-seasons":
        return dst_zone_case(c, c["pref"])
    b = base_of(c)
    pref = c["pref"]
    st = {"RELATIVE_BASE": b, "PREFER_DATES_FROM": pref, "TIMEZONE": "UTC"}
    bn = b  # naive reference in the zone of the result
    problems = []
    exp = None
    if sub.startswith("weekday"):
        name = cal.WEEKDAYS[c["wd"]].capitalize()
        s = name[:3] if c["abbr"] else name
        bd = datetime(b.year, b.month, b.day)
        delta = (cal.weekday(b.year, b.month, b.day) - c["wd"]) % 7   # days back to the most recent such weekday
        if pref == "past":
            exp = bd - timedelta(days=delta or 7)
        elif pref == "future":
            exp = bd + timedelta(days=(7 - delta) if delta else 7)
        else:
            exp = bd - timedelta(days=delta)
        check = lambda r: [] if r == exp else ["expected %s" % exp]  # noqa: E731
        form = "weekday-only"
    elif sub == "month-only":
        s = cal.MONTHS[c["mon"] - 1].capitalize()
        if c["pdom"]:
            st["PREFER_DAY_OF_MONTH"] = c["pdom"]

        def check(r):
            p = []
            if r.month != c["mon"]:
                p.append("month not preserved")
            if (r.hour, r.minute, r.second, r.microsecond) != (0, 0, 0, 0):
                p.append("time of day invented")
            want_day = 1 if c["pdom"] == "first" else min(b.day, cal.month_len(r.year, r.month))
            if r.day != want_day:
                p.append("day %d, expected %d" % (r.day, want_day))
            if pref == "past" and not r <= b:
                p.append("after the reference")
            if pref == "future" and not r >= b:
                p.append("before the reference")
            if pref == "current_period" and r.year != b.year:
                p.append("outside the reference year")
            return p
        form = "month-only"
    elif sub == "day-month":
        m, d = c["md"]
        mon = cal.MONTHS[m - 1].capitalize()
        s = "%d %s" % (d, mon) if c["order"] == "D Month" else "%s %d" % (mon, d)

        def check(r):
            p = []
            if (r.month, r.day) != (m, d):
                p.append("day/month not preserved")
            if (r.hour, r.minute, r.second, r.microsecond) != (0, 0, 0, 0):
                p.append("time of day invented")
            if pref == "past" and not r <= b:
                p.append("after the reference")
            if pref == "future" and not r >= b:
                p.append("before the reference")
            if pref == "current_period" and r.year != b.year and not ((m, d) == (2, 29) and not cal.is_leap(b.year)):
                p.append("outside the reference year")
            return p
        form = "day-month"
    elif sub == "time-only-own-zone":
        return own_zone_case(c, b, pref)
    elif sub.startswith("time-only"):
        H, M = divmod(c["hm"], 60)
        s = "%02d:%02d" % (H, M)
        if sub == "time-only-zones":
            z = pytz.timezone(c["tz"])
            st["TIMEZONE"] = c["tz"]
            st["RELATIVE_BASE"] = z.localize(b)
        elif c["aware"]:
            st["RELATIVE_BASE"] = pytz.utc.localize(b)
        cand = b.replace(hour=H, minute=M, second=0, microsecond=0)
        if pref == "past":
            exp = cand if cand <= b else cand - timedelta(days=1)
        elif pref == "future":
            exp = cand if cand >= b else cand + timedelta(days=1)
        else:
            exp = cand
        check = lambda r: [] if r == exp else ["expected %s" % exp]  # noqa: E731
        form = sub
    else:
        m, d = c["md"]
        yy = c["yy"]
        mon = cal.MONTHS[m - 1].capitalize()
        s = "%d %s %02d" % (d, mon, yy) if c["form"] == "D Month YY" else "%02d/%02d/%02d" % (m, d, yy)
        st["DATE_ORDER"] = "MDY"

        def check(r):
            p = []
            if (r.month, r.day) != (m, d) or r.year % 100 != yy:
                p.append("day/month/two-digit year not preserved")
            if (r.hour, r.minute, r.second, r.microsecond) != (0, 0, 0, 0):
                p.append("time of day invented")
            if pref == "past" and not r <= b:
                p.append("after the reference")
            if pref == "future" and not r >= b:
                p.append("before the reference")
            return p
        form = "two-digit-year:" + c["form"]
    o = api.outcome_of(api.gdd, s, ["en"], None, None, st, None, False, False)
    exp_txt = None
    sig = None
    if o[0] == "ok":
        dd = o[1]
        r = dd.date_obj
        if r is None:
            problems = ["no result"]
        elif r.tzinfo is not None:
            problems = ["aware result"]
        else:
            problems = check(r)
            if problems and exp is not None and form in ("weekday-only", "time-only-utc", "time-only-zones"):
                # signature of the month-forcing defect: the right answer, except that the month was afterwards
                # replaced by the reference month (December when the day does not fit that month)
                try:
                    forced = exp.replace(month=b.month)
                except ValueError:
                    forced = exp.replace(month=12)
                if exp.month != b.month and r == forced:
                    sig = "nearest occurrence lies in another month; result = expected with the month forced back to the reference month"
        if not problems:
            return "ok", True, None
        got = (r, dd.period)
    else:
        got = o[1:]
        problems = ["exception " + o[1]]
    exp_txt = exp if exp is not None else "see problems"
    cls = {"form": form, "pref": pref, "problem": sig or problems[0].split(",")[0].split(" expected")[0][:60]}
    if problems[0].startswith("expected"):
        cls["problem"] = sig or "not the nearest occurrence"
    return "bad", True, {"cls": cls, "expected": exp_txt if not isinstance(exp_txt, str) else problems, "observed": got,
                         "detail": {"string": s, "settings": st, "problems": problems}}
