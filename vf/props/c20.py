"""C20 — concurrent calls return what the same calls return sequentially (E4: single-preemption schedule enumeration)."""
import json
import multiprocessing as mp
import os
import shutil
import tempfile
import time
from datetime import datetime

from .. import clock
from ..sched import Tracer
from ..sched2 import Coop, record as record2
from ..target import InfraError, ensure
from .c03 import canon

ID = "C20"
LEVEL = "model_checking"
TECHNIQUE = ("stateless schedule enumeration on the real code under a controlled scheduler: (bound 1) call A runs under sys.settrace and the process forks at every "
             "executed library source line; each child runs call B to completion on a real thread at that point and then resumes A; (bound 2) a cooperative "
             "baton scheduler runs A to line k, B to line j, A to completion, B to completion for every pair (k, j) of first occurrences of static source "
             "locations; oracle = the results of the two sequential orders from the same initial state")
RULE = ("a schedule = (pair of calls, which call is preempted, initial state cold/warm, index k of the library line event before "
        "which the switch happens); all k of the traced run are executed (cold quick tier: the first two and the last dynamic "
        "occurrence of every static (file, line, caller) location); a transition = one executed schedule; states = distinct "
        "preemption locations; non-trivial = every executed schedule (both calls really ran)")
ASSUMPTIONS = [
    "preemption bound 1 at source-line granularity, B runs to completion (or until it blocks on something A holds, then A resumes) - the property's own quantifier",
    "CPython's GIL makes each bytecode atomic; intra-line switches and more than one preemption are outside the bound",
    "linearizability oracle: (rA, rB) must equal what A;B or B;A return from the same initial state in fresh forks",
    "the clock is virtual and constant; process zone UTC",
]
NOW = datetime(2020, 2, 29, 8, 9, 10)
S = {"PREFER_DAY_OF_MONTH": "first"}
_persist = {}


def _calls():
    import dateparser
    from dateparser.date import DateDataParser
    from dateparser.search import search_dates
    from dateparser.calendars.jalali import JalaliCalendar
    P = dateparser.parse

    def pp():
        if "p" not in _persist:
            _persist["p"] = DateDataParser(languages=["en"], settings={"PREFER_DATES_FROM": "past"})
        return _persist["p"]

    C = {
        "en-num": lambda: P("02/03/2015 10:30", languages=["en"]),
        "en-text": lambda: P("12 March 2014", languages=["en"]),
        "fr-S": lambda: P("02/03/2015", languages=["fr"], settings=dict(S)),
        "en-S": lambda: P("02/03/2015", languages=["en"], settings=dict(S)),
        "fr-first": lambda: P("02/03/2015", languages=["fr"], settings={"PREFER_DAY_OF_MONTH": "first"}),
        "en-last": lambda: P("March 2015", languages=["en"], settings={"PREFER_DAY_OF_MONTH": "last"}),
        "en-first-partial": lambda: P("March 2015", languages=["en"], settings={"PREFER_DAY_OF_MONTH": "first"}),
        "skip-foo": lambda: P("12 foo march 2015", languages=["en"], settings={"SKIP_TOKENS": ["foo"]}),
        "skip-bar": lambda: P("12 foo march 2015", languages=["en"], settings={"SKIP_TOKENS": ["bar"]}),
        "norm-off": lambda: P("4 decembre 2015", languages=["fr"], settings={"NORMALIZE": False}),
        "norm-on": lambda: P("4 decembre 2015", languages=["fr"], settings={"NORMALIZE": True}),
        "order-DMY": lambda: P("02/03/2015", languages=["en"], settings={"DATE_ORDER": "DMY"}),
        "order-YMD": lambda: P("02/03/04", languages=["en"], settings={"DATE_ORDER": "YMD"}),
        "order-DMY-other": lambda: P("04/05/2016", languages=["en"], settings={"DATE_ORDER": "DMY"}),
        "default-num": lambda: P("02/03/2015"),
        "search-en": lambda: search_dates("on 2 March 2015 and yesterday", languages=["en"]),
        "persistent": lambda: pp().get_date_data("March"),
        "search-en-past": lambda: search_dates("in March, then on 5 May 2011", languages=["en"], settings={"PREFER_DATES_FROM": "past"}),
        "cache1-en": lambda: P("02/03/2015", languages=["en"], settings={"CACHE_SIZE_LIMIT": 1}),
        "cache1-fr": lambda: P("2 mars 2015", languages=["fr"], settings={"CACHE_SIZE_LIMIT": 1}),
        "jalali": lambda: JalaliCalendar("جمعه سی ام اسفند ۱۳۸۷").get_date(),
        "rel-base-2020": lambda: P("1 hour ago", languages=["en"], settings={"RELATIVE_BASE": datetime(2020, 1, 15, 12, 0)}),
        "rel-base-2010": lambda: P("in 2 days", languages=["en"], settings={"RELATIVE_BASE": datetime(2010, 6, 1, 8, 0)}),
        "default-tz-en": lambda: P("March 3, 2011 10:00 EST"),
        "default-es": lambda: P("12 abril 2014"),
        "fmt-fr-a": lambda: P("10 janvier, 11", languages=["fr"], date_formats=["%y %B, %d"]),
        "fmt-fr-b": lambda: P("12 mars, 13 10:30", languages=["fr"], date_formats=["%y %B, %d %H:%M"]),
        "nospace-12": lambda: P("201512311230", languages=["en"], settings={"PARSERS": ["no-spaces-time"]}),
        "nospace-14": lambda: P("20140101125959", languages=["en"], settings={"PARSERS": ["no-spaces-time"]}),
        "default-fr-tz": lambda: P("10 janvier 2020 10:00 PST"),
        "default-fr": lambda: P("12 mars 2021"),
        "fr-S-other": lambda: P("03/04/2016", languages=["fr"], settings=dict(S)),
        "search-fr": lambda: search_dates("le 2 mars 2015 et hier", languages=["fr"]),
        "search-de": lambda: search_dates("am 3. April 2016 und gestern", languages=["de"]),
        "fr-default": lambda: P("02/03/2015", languages=["fr"]),
        "en-default": lambda: P("02/03/2015", languages=["en"]),
    }
    return C


# pair classes: (name, A, B, kind)
PAIRS = [
    ("same-config-same-language", "en-num", "en-text"),
    ("same-call-twice", "fr-default", "fr-default"),
    ("settings-differ-irrelevant-field", "en-first-partial", "en-last"),
    ("shared-settings-dict-fr-vs-en", "fr-S", "en-S"),
    ("default-settings-fr-vs-en", "fr-default", "en-default"),
    ("skip-tokens-differ", "skip-foo", "skip-bar"),
    ("normalize-differs", "norm-off", "norm-on"),
    ("date-order-differs", "order-DMY", "order-YMD"),
    ("parse-vs-search", "default-num", "search-en"),
    ("search-vs-persistent-parser", "search-en-past", "persistent"),
    ("cache-limit-1-twice", "cache1-en", "cache1-fr"),
    ("jalali-vs-gregorian", "jalali", "en-num"),
    ("relative-base-differs", "rel-base-2020", "rel-base-2010"),
    ("default-parser-tz-string-vs-other-language", "default-tz-en", "default-es"),
    ("same-config-fr-custom-settings", "fr-S", "fr-S-other"),
    ("search-fr-vs-search-de", "search-fr", "search-de"),
    ("search-vs-default-fr-parse", "search-en", "fr-default"),
    ("equal-settings-that-matter", "order-DMY", "order-DMY-other"),
    ("default-parser-two-strings-not-in-the-first-language", "default-fr-tz", "default-fr"),
    ("no-spaces-parser-first-use", "nospace-12", "nospace-14"),
    ("date-formats-same-locale", "fmt-fr-a", "fmt-fr-b"),
]
QUICK_WARM = ["same-config-same-language", "same-call-twice", "settings-differ-irrelevant-field", "shared-settings-dict-fr-vs-en",
              "skip-tokens-differ", "parse-vs-search", "relative-base-differs",
              "same-config-fr-custom-settings", "default-parser-two-strings-not-in-the-first-language", "cache-limit-1-twice"]
QUICK_WARM_REV = ["relative-base-differs", "same-config-same-language", "settings-differ-irrelevant-field"]
QUICK_COLD = ["shared-settings-dict-fr-vs-en", "relative-base-differs", "equal-settings-that-matter", "no-spaces-parser-first-use"]
THOROUGH_COLD_ALL = ["shared-settings-dict-fr-vs-en", "same-config-same-language", "skip-tokens-differ"]

_CALLS = None


def call(name):
    global _CALLS
    if _CALLS is None:
        _CALLS = _calls()
    fn = _CALLS[name]

    def run():
        try:
            return "ok:" + canon(fn())
        except BaseException as e:  # noqa: BLE001
            if isinstance(e, (KeyboardInterrupt, SystemExit)):
                raise
            return "exc:" + type(e).__name__
    return run


def _in_child(fn, *a):
    """Run fn in a forked child and return its JSON-able result."""
    r, w = os.pipe()
    pid = os.fork()
    if pid == 0:
        try:
            os.close(r)
            try:
                out = json.dumps(fn(*a)).encode()
            except BaseException:  # noqa: BLE001
                import traceback
                out = json.dumps({"__child_error__": traceback.format_exc()}).encode()
            with os.fdopen(w, "wb") as f:
                f.write(out)
        finally:
            os._exit(0)
    os.close(w)
    with os.fdopen(r, "rb") as f:
        data = f.read()
    _, st = os.waitpid(pid, 0)
    if not data:
        raise InfraError("child produced no result (wait status %r)" % (st,))
    res = json.loads(data)
    if isinstance(res, dict) and "__child_error__" in res:
        raise InfraError("child failed: " + res["__child_error__"])
    return res


def _warm_up(init, A, Bc):
    """Initial states: cold (nothing ran), warm (A then B ran once), warm-rev (B then A ran once: the preempted call's effects are the latest)."""
    if init == "warm":
        A()
        Bc()
    elif init == "warm-rev":
        Bc()
        A()


def _driver(task):
    """One (pair, role, init, selection) exploration; runs in a process forked from the pristine parent."""
    try:
        pname, a_name, b_name, init, mode, cap = task[:6]
        part, nparts = (task[6], task[7]) if len(task) > 6 else (0, 1)
        t_start = time.time()
        clock.freeze(NOW)
        A, Bc = call(a_name), call(b_name)
        _warm_up(init, A, Bc)
        def timed_ab():
            ra = A()
            t1 = time.time()
            rb = Bc()
            return [ra, rb, time.time() - t1]
        seq_ab = _in_child(timed_ab)
        b_dur = seq_ab.pop()
        seq_ba = _in_child(lambda: list(reversed([Bc(), A()])))
        outdir = tempfile.mkdtemp(prefix="verif-c20-", dir="/dev/shm")
        try:
            tr = Tracer(A, Bc, outdir, cap=cap, b_timeout=max(1.0, 8 * b_dur))
            ra1, locs1 = _in_child(lambda: tr.record())
            ra2, locs2 = _in_child(lambda: tr.record())
            if locs1 != locs2 or ra1 != ra2:
                return {"error": "traced run of %s is not deterministic (%d vs %d line events)" % (a_name, len(locs1), len(locs2))}
            n = len(locs1)
            if mode == "all":
                select = None
            else:
                occ = {}
                for k, loc in enumerate(locs1):
                    occ.setdefault((loc[0], loc[1], loc[3]), []).append(k)
                select = set()
                for ks in occ.values():
                    select.update(ks[:2])
                    select.add(ks[-1])
            if nparts > 1:
                # this driver explores the residue class `part` (mod nparts) of the selected events; its siblings the others
                select = {k for k in (range(n) if select is None else select) if k % nparts == part}
            tr.select = select

            def go():
                ra, total = tr.explore()
                return [ra, total]
            ra3, total = _in_child(go)
            if total != n:
                return {"error": "line-event count changed between passes (%d vs %d)" % (n, total)}
            results = []
            for fn_ in os.listdir(outdir):
                if fn_.endswith(".json"):
                    results.append(json.load(open(os.path.join(outdir, fn_))))
            expected_n = n if select is None else len(select)
            if len(results) != expected_n:
                return {"error": "%d of %d schedules reported (pair %s, A=%s)" % (len(results), expected_n, pname, a_name)}
        finally:
            shutil.rmtree(outdir, ignore_errors=True)
        allowed = {(seq_ab[0], seq_ab[1]), (seq_ba[0], seq_ba[1])}
        bad = []
        outcomes = {}
        locs = set()
        blocked = 0
        for r in results:
            if r["blocked"]:
                # B could not run to completion at this point (it waits for a lock A holds): the schedule
                # "B to completion, then A" does not exist; after the hand-back both threads ran freely, so the
                # outcome is not a function of the schedule and is not judged
                blocked += 1
                locs.add((r["loc"][0], r["loc"][1]))
                continue
            pair = (r["ra"], r["rb"])
            outcomes[json.dumps(pair)] = outcomes.get(json.dumps(pair), 0) + 1
            locs.add((r["loc"][0], r["loc"][1]))
            if pair not in allowed:
                bad.append(r)
        return {"pair": pname, "A": a_name, "B": b_name, "init": init, "mode": mode, "line_events": n, "schedules": len(results),
                "part": part, "nparts": nparts, "loc_set": sorted(locs), "static_locations": len(locs), "outcomes": outcomes, "blocked": blocked, "allowed": sorted(allowed),
                "bad": bad[:2000], "static_total": len({(l[0], l[1]) for l in locs1}), "driver_wall_s": round(time.time() - t_start, 1)}
    except Exception:  # noqa: BLE001
        import traceback
        return {"error": traceback.format_exc()}


# ------------------------------------------------------------------------------------------------ bound 2
# (pair, granularity of the preemption points, both roles?, k-stripes in the quick tier)
BOUND2_QUICK = [("date-formats-same-locale", "stack", False, 1), ("same-config-same-language", "stack", True, 1), ("relative-base-differs", "stack", False, 1)]
BOUND2_THOROUGH = [("same-config-same-language", "line", True, 1), ("default-settings-fr-vs-en", "line", True, 1), ("date-formats-same-locale", "line", False, 1),
                   ("date-formats-same-locale", "stack", True, 1), ("shared-settings-dict-fr-vs-en", "stack", True, 1), ("parse-vs-search", "stack", True, 1),
                   ("cache-limit-1-twice", "stack", True, 1), ("relative-base-differs", "stack", True, 1), ("equal-settings-that-matter", "stack", True, 1)]


def _firsts(locs, gran="line"):
    """Indices of the first line event of every static source line ("line") or of every distinct library call stack ("stack")."""
    seen, out = set(), []
    for i, l in enumerate(locs):
        key = (l[0], l[1]) if gran == "line" else l[3]
        if key not in seen:
            seen.add(key)
            out.append(i)
    return out


def _driver2(task):
    """Bound-2 exploration of one chunk of A's preemption points: every (k, j) with k in the chunk and j over all first
    occurrences of B's static locations (plus j = len(B): B not preempted).  Runs in a process forked from the pristine parent."""
    try:
        pname, a_name, b_name, chunk, nchunks, stripe, nstripes = task[:7]
        gran = task[7] if len(task) > 7 else "line"
        clock.freeze(NOW)
        A, Bc = call(a_name), call(b_name)
        A()
        Bc()
        seq_ab = _in_child(lambda: [A(), Bc()])
        seq_ba = _in_child(lambda: list(reversed([Bc(), A()])))
        ra1, la = _in_child(lambda: record2(A))
        ra2, la2 = _in_child(lambda: record2(A))
        rb1, lb = _in_child(lambda: record2(Bc))
        rb2, lb2 = _in_child(lambda: record2(Bc))
        if la != la2 or lb != lb2 or ra1 != ra2 or rb1 != rb2:
            return {"error": "traced runs of %s/%s are not deterministic" % (a_name, b_name)}
        fa, fb = _firsts(la, gran), _firsts(lb, gran)
        ks = fa[stripe::nstripes][chunk::nchunks]
        js = fb + [len(lb)]
        co = Coop(A, Bc)
        allowed = {(seq_ab[0], seq_ab[1]), (seq_ba[0], seq_ba[1])}
        outcomes, bad = {}, []
        n = blocked = b_short = 0
        for k in ks:
            for j in js:
                r = _in_child(lambda: co.run(k, j))
                if "error" in r:
                    return {"error": "schedule (%d,%d) of %s: %s" % (k, j, pname, r["error"])}
                if r["reached"]["A"] is None or list(r["reached"]["A"]) != list(la[k][:3]):
                    return {"error": "replayed prefix diverged: A reached %r, recorded %r at k=%d" % (r["reached"]["A"], la[k], k)}
                n += 1
                blocked += 1 if r["blocked"] else 0
                if j < len(lb) and r["reached"]["B"] is None:
                    b_short += 1      # B took another path after A's partial effects and finished before its j-th line
                pair = (r["ra"], r["rb"])
                kk = json.dumps(pair)
                outcomes[kk] = outcomes.get(kk, 0) + 1
                if pair not in allowed:
                    bad.append({"k": k, "j": j, "ra": r["ra"], "rb": r["rb"], "locA": r["reached"]["A"], "locB": r["reached"]["B"]})
        return {"pair": pname, "A": a_name, "B": b_name, "gran": gran, "chunk": chunk, "stripe": stripe, "nstripes": nstripes, "schedules": n,
                "ks": len(ks), "js": len(js), "static_A": len(fa), "static_B": len(fb), "line_events_A": len(la), "line_events_B": len(lb),
                "blocked": blocked, "b_finished_early": b_short, "outcomes": outcomes, "allowed": sorted(allowed), "bad": bad[:500]}
    except Exception:  # noqa: BLE001
        import traceback
        return {"error": traceback.format_exc()}


def _run_bound2(tier, seed, jobs, deadline, t0, report):
    T = tier == "thorough"
    pairs = {p[0]: p for p in PAIRS}
    nchunks = max(2, jobs - 2) * (4 if T else 1)
    tasks = []
    for name, gran, both, nstripes in (BOUND2_THOROUGH if T else BOUND2_QUICK):
        stripe = seed % nstripes
        _, a, b = pairs[name]
        for x, y in (((a, b), (b, a)) if both else ((a, b),)):
            for c in range(nchunks):
                tasks.append((name, x, y, c, nchunks, stripe, nstripes, gran))
    ctx = mp.get_context("fork")
    res = []
    with ctx.Pool(max(2, jobs - 2), maxtasksperchild=1) as pool:
        for r in pool.imap_unordered(_driver2, tasks, chunksize=1):
            if "error" in r:
                pool.terminate()
                raise InfraError(r["error"])
            res.append(r)
            if time.time() - t0 > deadline:
                pool.terminate()
                report.exhaustive = False
                report.notes.append("deadline hit in bound-2 exploration: %d of %d chunks finished" % (len(res), len(tasks)))
                break
    agg = {}
    for r in res:
        g = agg.setdefault((r["pair"], r["A"], r["gran"]), {"pair": r["pair"], "A": r["A"], "B": r["B"], "gran": r["gran"], "schedules": 0, "ks": 0, "js": r["js"], "blocked": 0,
                                                 "b_finished_early": 0, "outcomes": {}, "bad": [], "allowed": r["allowed"], "static_A": r["static_A"],
                                                 "static_B": r["static_B"], "line_events_A": r["line_events_A"], "line_events_B": r["line_events_B"],
                                                 "stripe": "%d/%d" % (r["stripe"], r["nstripes"])})
        for f in ("schedules", "ks", "blocked", "b_finished_early"):
            g[f] += r[f]
        for o, c in r["outcomes"].items():
            g["outcomes"][o] = g["outcomes"].get(o, 0) + c
        g["bad"].extend(r["bad"])
    total = 0
    per = []
    for (pname, a_name, gran_), g in sorted(agg.items()):
        total += g["schedules"]
        per.append({k: g[k] for k in ("pair", "A", "B", "gran", "schedules", "ks", "js", "static_A", "static_B", "line_events_A", "line_events_B", "blocked",
                                      "b_finished_early", "stripe")} | {"distinct_outcomes": len(g["outcomes"]), "violating_schedules": len(g["bad"])})
        groups = {}
        ab, ba = g["allowed"][0], g["allowed"][-1]
        for b in g["bad"]:
            victim = []
            if b["ra"] not in (ab[0], ba[0]):
                victim.append("A")
            if b["rb"] not in (ab[1], ba[1]):
                victim.append("B")
            gg = groups.setdefault((b["ra"], b["rb"]), {"n": 0, "first": b, "victim": "+".join(victim) or "combination", "regions": {}})
            gg["n"] += 1
            reg = "%s:%s" % (b["locA"][0], b["locA"][2])
            gg["regions"][reg] = gg["regions"].get(reg, 0) + 1
        for (ra, rb), gg in groups.items():
            report.add_violation({
                "cls": {"pair": pname, "preempted": a_name, "other": g["B"], "init": "warm", "bound": 2, "victim": gg["victim"], "rA": ra, "rB": rb},
                "count": gg["n"],
                "examples": [{"sub": "schedules-bound-2", "case": {"pair": pname, "A": a_name, "B": g["B"], "init": "warm", "k": gg["first"]["k"],
                                                                  "j": gg["first"]["j"], "bound": 2},
                              "expected": {"sequential A;B": ab, "sequential B;A": ba}, "observed": {"rA": ra, "rB": rb},
                              "detail": {"A_preempted_before": gg["first"]["locA"], "B_preempted_before": gg["first"]["locB"],
                                         "schedules_with_this_outcome": gg["n"],
                                         "A_preemption_regions": dict(sorted(gg["regions"].items(), key=lambda x: -x[1])[:25])}}]})
    return total, per


def _measure(task):
    """Number of library line events of the preempted call of a task (decides into how many parts the task is cut)."""
    try:
        pname, a_name, b_name, init = task[:4]
        clock.freeze(NOW)
        A, Bc = call(a_name), call(b_name)
        _warm_up(init, A, Bc)
        tr = Tracer(A, Bc, None)
        return len(_in_child(lambda: tr.record())[1])
    except Exception:  # noqa: BLE001
        import traceback
        return {"error": traceback.format_exc()}


def _merge_parts(results):
    """One record per (pair, preempted call, initial state): the residue-class parts of a task put together again."""
    out = {}
    for r in results:
        key = (r["pair"], r["A"], r["init"], r["mode"])
        g = out.get(key)
        if g is None:
            g = out[key] = dict(r, loc_set=set(map(tuple, r["loc_set"])), outcomes=dict(r["outcomes"]), bad=list(r["bad"]), parts=1)
            continue
        if g["line_events"] != r["line_events"] or g["allowed"] != r["allowed"]:
            raise InfraError("parts of %r disagree on the traced run (%d vs %d line events)" % (key, g["line_events"], r["line_events"]))
        g["parts"] += 1
        g["schedules"] += r["schedules"]
        g["blocked"] += r["blocked"]
        g["loc_set"] |= set(map(tuple, r["loc_set"]))
        g["bad"] += r["bad"]
        g["driver_wall_s"] = max(g["driver_wall_s"], r["driver_wall_s"])
        for o, c in r["outcomes"].items():
            g["outcomes"][o] = g["outcomes"].get(o, 0) + c
    for g in out.values():
        if g["parts"] != g["nparts"]:
            raise InfraError("%d of %d parts of %s/%s reported" % (g["parts"], g["nparts"], g["pair"], g["A"]))
        g["static_locations"] = len(g["loc_set"])
        if g["mode"] == "all" and g["schedules"] != g["line_events"]:
            raise InfraError("%s/%s: %d schedules for %d line events" % (g["pair"], g["A"], g["schedules"], g["line_events"]))
    return list(out.values())


def run(tier, seed, jobs, deadline, report):
    ensure()
    import dateparser  # noqa: F401
    import dateparser.search  # noqa: F401
    import dateparser.calendars.jalali  # noqa: F401
    clock.install()
    T = tier == "thorough"
    pairs = {p[0]: p for p in PAIRS}
    tasks = []
    warm = [p[0] for p in PAIRS] if T else QUICK_WARM
    for name in warm:
        _, a, b = pairs[name]
        tasks.append((name, a, b, "warm", "all", 2))
        if a != b:
            tasks.append((name, b, a, "warm", "all", 2))
    for name in ([p[0] for p in PAIRS] if T else QUICK_WARM_REV):
        _, a, b = pairs[name]
        if a != b:
            tasks.append((name, a, b, "warm-rev", "all", 2))
            tasks.append((name, b, a, "warm-rev", "all", 2))
    cold_all = THOROUGH_COLD_ALL if T else []
    cold_red = [p[0] for p in PAIRS if p[0] not in cold_all] if T else QUICK_COLD
    for name in cold_all:
        _, a, b = pairs[name]
        tasks.append((name, a, b, "cold", "all", 4))
        tasks.append((name, b, a, "cold", "all", 4))
    for name in cold_red:
        _, a, b = pairs[name]
        tasks.append((name, a, b, "cold", "first-two-and-last", 5))
        if a != b:
            tasks.append((name, b, a, "cold", "first-two-and-last", 5))
    # cold drivers are the long ones: start them first
    tasks.sort(key=lambda t: (t[3] != "cold", t[4] != "all"))
    ctx = mp.get_context("fork")
    t0 = time.time()
    results = []
    ndrivers = max(2, jobs // 2 - 2)
    # long traced runs (search: ~18 k line events) are cut into residue classes so that no single driver is the critical path
    with ctx.Pool(ndrivers, maxtasksperchild=1) as pool:
        sizes = pool.map(_measure, tasks, chunksize=1)
    cut = []
    for t, n in zip(tasks, sizes):
        if isinstance(n, dict):
            raise InfraError(n["error"])
        nparts = max(1, -(-n // 2500)) if t[4] == "all" else 1
        cut += [t + (p, nparts) for p in range(nparts)]
    ntasks = len(tasks)
    tasks = cut
    with ctx.Pool(ndrivers, maxtasksperchild=1) as pool:
        for r in pool.imap_unordered(_driver, tasks, chunksize=1):
            if "error" in r:
                pool.terminate()
                raise InfraError(r["error"])
            results.append(r)
            if time.time() - t0 > deadline:
                pool.terminate()
                report.exhaustive = False
                report.notes.append("deadline hit: %d of %d drivers finished" % (len(results), len(tasks)))
                break
    total = 0
    locs = 0
    per = []
    if report.exhaustive:
        results = _merge_parts(results)
    for r in sorted(results, key=lambda r: (r["pair"], r["A"], r["init"])):
        total += r["schedules"]
        locs += r["static_locations"]
        per.append({k: r[k] for k in ("pair", "A", "B", "init", "mode", "line_events", "schedules", "static_locations", "static_total", "blocked", "driver_wall_s")}
                   | {"distinct_outcomes": len(r["outcomes"]), "violating_schedules": len(r["bad"])})
        groups = {}
        for b in r["bad"]:
            victim = []
            ab, ba = r["allowed"][0], r["allowed"][-1]
            if b["ra"] not in (ab[0], ba[0]):
                victim.append("A")
            if b["rb"] not in (ab[1], ba[1]):
                victim.append("B")
            key = (b["ra"], b["rb"])
            g = groups.setdefault(key, {"n": 0, "regions": {}, "first": b, "victim": "+".join(victim) or "combination"})
            g["n"] += 1
            reg = "%s:%s" % (b["loc"][0], b["loc"][2])
            g["regions"][reg] = g["regions"].get(reg, 0) + 1
        for (ra, rb), g in groups.items():
            report.add_violation({
                "cls": {"pair": r["pair"], "preempted": r["A"], "other": r["B"], "init": r["init"], "victim": g["victim"], "rA": ra, "rB": rb},
                "count": g["n"],
                "examples": [{"sub": "schedules", "case": {"pair": r["pair"], "A": r["A"], "B": r["B"], "init": r["init"], "k": g["first"]["k"]},
                              "expected": {"sequential A;B": r["allowed"][0], "sequential B;A": r["allowed"][-1]},
                              "observed": {"rA": ra, "rB": rb},
                              "detail": {"preempted_before": g["first"]["loc"], "schedules_with_this_outcome": g["n"],
                                         "preemption_regions": dict(sorted(g["regions"].items(), key=lambda x: -x[1])[:25])}}]})
    total2, per2 = _run_bound2(tier, seed, jobs, deadline, t0, report) if report.exhaustive else (0, [])
    report.evaluations = total + total2
    report.nontrivial = total + total2
    report.hist = {"schedules-bound-1": total, "schedules-bound-2": total2}
    report.samples = [{"pair": r["pair"], "preempted": r["A"], "other": r["B"], "init": r["init"], "line_events": r["line_events"],
                       "outcomes": r["outcomes"]} for r in results[:6]]
    report.subspaces = [{"name": "%s/%s preempted/%s/%s" % (p["pair"], p["A"], p["init"], p["mode"]), "size": p["schedules"],
                         "executed": p["schedules"], "complete": True} for p in per]
    report.subspaces += [{"name": "bound-2/%s/%s first per %s/warm/k-stripe %s" % (p["pair"], p["A"], p["gran"], p["stripe"]), "size": p["schedules"],
                          "executed": p["schedules"], "complete": True} for p in per2]
    report.extra.update({"states": max(1, locs), "transitions": total + total2, "traces_validated_against_impl": total + total2,
                         "preemption_bound": "1 (every line event) and 2 (first occurrence of every static location, cooperative scheduler)",
                         "granularity": "source line", "drivers": per, "drivers_bound_2": per2,
                         "pairs": [list(p) for p in PAIRS]})


def match_finding(finding, cls):
    m = finding.get("match") or {}
    from .. import codec
    enc = codec.enc(cls)
    for k, v in m.items():
        got = enc.get(k)
        if isinstance(v, dict) and "$in" in v:
            if got not in v["$in"]:
                return False
        elif got != v:
            return False
    return bool(m)


def _replay_one(task):
    a_name, b_name, init, k = task[:4]
    j = task[4] if len(task) > 4 else None
    clock.freeze(NOW)
    A, Bc = call(a_name), call(b_name)
    _warm_up(init, A, Bc)
    seq_ab = _in_child(lambda: [A(), Bc()])
    seq_ba = _in_child(lambda: list(reversed([Bc(), A()])))
    if j is not None:
        r = _in_child(lambda: Coop(A, Bc).run(k, j))
        if "error" in r:
            raise InfraError(r["error"])
        return seq_ab, seq_ba, [{"ra": r["ra"], "rb": r["rb"], "loc": r["reached"]["A"], "locB": r["reached"]["B"]}]
    outdir = tempfile.mkdtemp(prefix="verif-c20r-", dir="/dev/shm")
    try:
        tr = Tracer(A, Bc, outdir, select={k}, cap=1)
        _in_child(lambda: list(tr.explore()))
        res = [json.load(open(os.path.join(outdir, f))) for f in os.listdir(outdir) if f.endswith(".json")]
    finally:
        shutil.rmtree(outdir, ignore_errors=True)
    return seq_ab, seq_ba, res


def replay(rec):
    ensure()
    import dateparser  # noqa: F401
    import dateparser.search  # noqa: F401
    import dateparser.calendars.jalali  # noqa: F401
    clock.install()
    c = rec["case"]
    ctx = mp.get_context("fork")

    with ctx.Pool(1, maxtasksperchild=1) as pool:
        seq_ab, seq_ba, res = pool.apply(_replay_one, ((c["A"], c["B"], c["init"], c["k"]) + ((c["j"],) if c.get("bound") == 2 else ()),))
    if not res:
        raise InfraError("schedule k=%s was not reached" % c["k"])
    r = res[0]
    if (r["ra"], r["rb"]) in {(seq_ab[0], seq_ab[1]), (seq_ba[0], seq_ba[1])}:
        return None
    return {"cls": dict(rec["class"], rA=r["ra"], rB=r["rb"]), "expected": {"A;B": seq_ab, "B;A": seq_ba},
            "observed": {"rA": r["ra"], "rB": r["rb"]}, "detail": {"preempted_before": r["loc"]}}
