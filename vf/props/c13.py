"""C13 — language selection is honoured; autodetection is reproducible (E1, metamorphic)."""
from datetime import datetime
from itertools import permutations

from .. import api, corpus, vocab
from ..space import Listed, Product, stripe

ID = "C13"
LEVEL = "exploration"
TECHNIQUE = "exhaustive enumeration of (string) x (every ordered list of 1..3 languages from a per-string universe) x use_given_order x DEFAULT_LANGUAGES, judged against the single-language parses (compositional law); autodetect vs re-parse with the reported locale; region vs locale equivalence for every regional locale"
RULE = ("strings = generated per-language complete dates and relative phrases + harvested corpus; lists = all ordered lists of "
        "1..3 distinct languages from {detected, en, fr, de, ru}; non-trivial = some single-language parse of the list succeeded; "
        "distinct = distinct (string, list, order flag, defaults)")
ASSUMPTIONS = [
    "single-language reference parses are made with the same settings minus DEFAULT_LANGUAGES",
    "when no selected language succeeds and DEFAULT_LANGUAGES is set, only membership of the reported locale is judged",
]
CHUNK = 400
BASE = datetime(2001, 2, 3, 4, 5, 6)
COMMON = ["en", "fr", "de", "ru"]
_S = None


def strings(seed=0, thorough=False):
    """[(kind, detected language, string)]"""
    global _S
    if _S is None:
        out = []
        for g in corpus.generated():
            if set(g["parts"]) == {"day", "month", "year"} or (set(g["parts"]) == {"weekday", "day", "month", "year", "time"} and g["layout"] == "natural"):
                out.append(("gen", g["lang"], g["string"]))
        for lang in vocab.languages():
            rel = vocab.locale_info(lang).get("relative-type") or {}
            for key in ("1 day ago", "in 1 day"):
                if rel.get(key):
                    out.append(("rel", lang, rel[key][0]))
        cor = [("corpus", loc, s) for s, loc in corpus.corpus() if loc]
        _S = (out, cor)
    return _S


def universe(lang):
    u = [lang] + [x for x in COMMON if x != lang]
    return u


def lists_for(lang):
    u = universe(lang)
    out = []
    for k in (1, 2, 3):
        out.extend(permutations(u, k))
    return out


LANG_ORDER = None


def prio(lang):
    global LANG_ORDER
    if LANG_ORDER is None:
        LANG_ORDER = {l: i for i, l in enumerate(vocab.language_order())}
    return LANG_ORDER[lang]


def spaces(tier, seed):
    T = tier == "thorough"
    gen, cor = strings()
    cor_idx = list(range(len(cor))) if T else stripe(range(len(cor)), seed, 4)
    nl = 85
    from dateparser.data.languages_info import language_locale_dict
    regional = [(l, loc) for l in vocab.languages() for loc in sorted(language_locale_dict.get(l, []))]
    sp = [
        Product("composition-generated", {"src": ["gen"], "s": range(len(gen)), "li": range(nl), "ugo": [False, True], "dl": ["none"]}),
        Product("composition-corpus", {"src": ["corpus"], "s": cor_idx, "li": range(nl), "ugo": [False, True], "dl": ["none"]},
                note="quick: the seed's quarter of the corpus; thorough: all"),
        Product("defaults-generated", {"src": ["gen"], "s": range(len(gen)), "li": range(25), "ugo": [False], "dl": ["en", "detected", "other"],
                                       "via": ["languages", "locales"]}),
        Product("defaults-corpus", {"src": ["corpus"], "s": cor_idx, "li": range(25), "ugo": [False], "dl": ["en", "detected", "other"],
                                    "via": ["languages", "locales"]}),
        Product("all-language-pairs-numeric", {"a": range(len(vocab.language_order())), "b": range(len(vocab.language_order())),
                                               "ns": ["10/03/2015", "03-04-05 10:30", "02/13/2019"], "ugo": [False, True]},
                note="every ordered pair of the 205 languages on numeric dates every language accepts: the higher-priority (or first given) language decides"),
        Product("autodetect-reproducible", {"src": ["gen", "corpus"], "s": range(max(len(gen), len(cor)))}),
        Product("region-equals-locale", {"rl": range(len(regional)), "k": range(4)}),
        Product("parse-function-selection-forms", {"rl": range(len(regional)), "order": [0, 1, 2]},
                note="dateparser.parse() called with the same codes as languages= (+region) and as locales=, in either order, and with a locale code given "
                     "as a language: every call must give what a fresh DateDataParser with the same arguments gives (two- and three-call histories)"),
        Product("two-parsers-that-try-previous-locales", {"a": range(len(TPL)), "b": range(len(TPL)), "s": ["01/02/2020", "05.06.07", "3-4-2019 10:30"], "third": [False, True]},
                note="two (or three) DateDataParser objects with try_previous_locales=True and different languages: the first parses a string of its own language, "
                     "then the second parses a numeric string - the reported locale must be the second parser's language and the result what a parser without "
                     "try_previous_locales gives (the locales a parser remembers are its own)"),
        Product("autodetect-with-and-without-region", {"region": ["AU", "GB", "SE", "CA", "US", "IN", "ZA", "DE", "FR", "BR", "MX", "CH"], "s": ["01/02/2020", "05.06.07", "3-4-2019 10:30", "02/03/2020 lundi"],
                                                       "order": [0, 1, 2]},
                note="DateDataParser() and DateDataParser(region=R) on the very same string, in both orders and via dateparser.parse: each must give what it gives alone (computed in a forked child)"),
        Product("language-list-with-region", {"rl": range(len(regional)), "other": ["en", "fr"], "pos": [0, 1]}),
    ]
    return sp


_single = {}
_regional = None


def single(s, lang, extra=None):
    k = (s, lang)
    if k not in _single:
        if len(_single) > 400:
            _single.clear()
        st = {"RELATIVE_BASE": BASE}
        o = api.outcome_of(api.gdd, s, [lang], None, None, st)
        _single[k] = ("exc",) + o[1:] if o[0] == "exc" else (o[1].date_obj, o[1].period, o[1].locale)
    return _single[k]


def _alone(region, s):
    """What DateDataParser(region=region).get_date_data(s) gives before this process has parsed anything else: computed in a forked child
    of this worker?  No - the worker has a history; the child therefore re-executes in a fresh interpreter-like state only as far as the library's
    per-process caches of THIS string are concerned.  A genuinely fresh interpreter is used instead."""
    import json
    import subprocess
    import sys
    code = ("import sys, json\nfrom vf.target import ensure\nensure()\nfrom dateparser.date import DateDataParser\n"
            "r = sys.argv[1] or None\nd = DateDataParser(region=r).get_date_data(sys.argv[2])\n"
            "print('RESULT ' + json.dumps([d.date_obj.isoformat() if d.date_obj else None, d.period, d.locale]))\n")
    p = subprocess.run([sys.executable, "-c", code, region or "", s], capture_output=True, text=True, timeout=300)
    line = next((ln for ln in p.stdout.splitlines() if ln.startswith("RESULT ")), None)
    if line is None:
        raise RuntimeError("fresh interpreter failed: %s" % p.stderr[-800:])
    return json.loads(line[7:])


_alone_memo = {}


TPL = [("es", "12 de marzo de 2020"), ("en", "March 12, 2020"), ("fr", "12 mars 2020"), ("de", "12. M\u00e4rz 2020"), ("ru", "12 \u043c\u0430\u0440\u0442\u0430 2020"),
       ("sv", "12 mars 2020"), ("ja", "2020\u5e743\u670812\u65e5"), ("pt", "12 de mar\u00e7o de 2020")]


def run_try_previous(c):
    from dateparser.date import DateDataParser
    if c["a"] == c["b"]:
        return None
    (la, sa), (lb, _) = TPL[c["a"]], TPL[c["b"]]
    p1 = DateDataParser(languages=[la], try_previous_locales=True)
    d1 = p1.get_date_data(sa)
    if c["third"]:
        lc, sc = TPL[(c["a"] + 3) % len(TPL)]
        if lc != lb:
            DateDataParser(languages=[lc], try_previous_locales=True).get_date_data(sc)
    p2 = DateDataParser(languages=[lb], try_previous_locales=True)
    d2 = p2.get_date_data(c["s"])
    ref = DateDataParser(languages=[lb]).get_date_data(c["s"])
    got = (d2.date_obj, d2.period, d2.locale)
    exp = (ref.date_obj, ref.period, ref.locale)
    if d1.locale not in (la, None):
        return "bad", True, {"cls": {"form": "two-parsers-that-try-previous-locales", "kind": "first parser reports a locale outside its languages"},
                             "expected": la, "observed": d1.locale, "detail": {"first": [la, sa]}}
    if got != exp or (d2.locale is not None and d2.locale != lb):
        return "bad", True, {"cls": {"form": "two-parsers-that-try-previous-locales", "kind": "second parser's result depends on the first parser", "locale_outside": d2.locale not in (lb, None)},
                             "expected": exp, "observed": got, "detail": {"first": [la, sa], "second": [lb, c["s"]], "third_parser_between": c["third"]}}
    return "ok", True, None


def run_region_autodetect(c):
    from dateparser.date import DateDataParser
    R, s = c["region"], c["s"]
    for k in ((None, s), (R, s)):
        if k not in _alone_memo:
            _alone_memo[k] = _alone(*k)
    seq = [[None, R], [R, None], [None, R, None]][c["order"]]
    for i, reg in enumerate(seq):
        d = DateDataParser(region=reg).get_date_data(s)
        got = [d.date_obj.isoformat() if d.date_obj else None, d.period, d.locale]
        if got != _alone_memo[(reg, s)]:
            return "bad", True, {"cls": {"form": "autodetect-with-and-without-region", "kind": "differs from the same call in a fresh interpreter", "region_given": reg is not None,
                                         "position": i}, "expected": _alone_memo[(reg, s)], "observed": got, "detail": {"string": s, "regions_in_order": seq}}
    return "ok", True, None


def run_case(sub, c):
    global _regional
    if sub == "autodetect-with-and-without-region":
        return run_region_autodetect(c)
    if sub == "two-parsers-that-try-previous-locales":
        return run_try_previous(c)
    gen, cor = strings()
    if sub in ("region-equals-locale", "language-list-with-region", "parse-function-selection-forms"):
        if _regional is None:
            from dateparser.data.languages_info import language_locale_dict
            _regional = [(l, loc) for l in vocab.languages() for loc in sorted(language_locale_dict.get(l, []))]
        lang, loc = _regional[c["rl"]]
        region = loc[len(lang) + 1:]
        mine = [x[2] for x in gen if x[1] == lang][:3] + ["12/11/2010 10:30"]
        if sub == "parse-function-selection-forms":
            import dateparser
            from dateparser.date import DateDataParser
            s = "12/11/2010 10:30"
            st = {"RELATIVE_BASE": BASE}
            forms = [{"languages": [lang], "region": region}, {"locales": [lang], "region": region}, {"locales": [loc]}, {"languages": [loc]}]
            seq = [[0, 1, 2, 3], [1, 0, 3, 2], [2, 3, 1, 0]][c["order"]]
            for i in seq:
                kw = forms[i]
                got = api.outcome_of(dateparser.parse, s, settings=dict(st), **{k: (list(v) if isinstance(v, list) else v) for k, v in kw.items()})
                ref = api.outcome_of(lambda: DateDataParser(settings=dict(st), **{k: (list(v) if isinstance(v, list) else v) for k, v in kw.items()}).get_date_data(s).date_obj)
                fg = got[1:2] if got[0] == "exc" else got[1]
                fr = ref[1:2] if ref[0] == "exc" else ref[1]
                if got[0] != ref[0] or fg != fr:
                    return "bad", True, {"cls": {"form": sub, "language": lang, "kind": "parse() differs from a fresh DateDataParser", "call": sorted(kw)[0]},
                                         "expected": fr, "observed": fg, "detail": {"string": s, "call": kw, "calls_before": [forms[j] for j in seq[:seq.index(i)]]}}
            return "ok", True, None
        if sub == "region-equals-locale":
            if c["k"] >= len(mine):
                return None
            s = mine[c["k"]]
            st = {"RELATIVE_BASE": BASE}
            a = api.outcome_of(api.gdd, s, [lang], None, region, st)
            b = api.outcome_of(api.gdd, s, None, [loc], None, st)
            fa = a[1:] if a[0] == "exc" else (a[1].date_obj, a[1].period, a[1].locale)
            fb = b[1:] if b[0] == "exc" else (b[1].date_obj, b[1].period, b[1].locale)
            if a[0] == "ok" and b[0] == "ok" and fa == fb:
                return "ok", fa[0] is not None, None
            return "bad", True, {"cls": {"form": sub, "language": lang, "kind": "differs"}, "expected": fb, "observed": fa,
                                 "detail": {"string": s, "languages": [lang], "region": region, "locales": [loc]}}
        other = c["other"] if c["other"] != lang else "de"
        langs = [other, lang] if c["pos"] == 0 else [lang, other]
        s = mine[0] if mine else "12/11/2010"
        st = {"RELATIVE_BASE": BASE}
        a = api.outcome_of(api.gdd, s, langs, None, region, st, None, False, False)
        if a[0] == "exc":
            return "bad", True, {"cls": {"form": sub, "kind": "exception:" + a[1]}, "expected": "a result from the requested languages",
                                 "observed": a[1:], "detail": {"string": s, "languages": langs, "region": region}}
        dd = a[1]
        ref = single_loc(s, loc)
        okloc = dd.locale in (loc, other + "-" + region, None) and (dd.locale is not None or dd.date_obj is None)
        # the language's own regional locale must give what locales=[L-R] gives, unless the other language came first and parsed
        problem = None
        if not okloc:
            problem = "reported locale %r not among the requested" % (dd.locale,)
        elif dd.locale == loc and (dd.date_obj, dd.period) != ref[:2]:
            problem = "regional locale built from the wrong language data"
        elif dd.date_obj is None and ref[0] is not None:
            problem = "no result although locales=[%s] parses" % loc
        if problem is None:
            return "ok", dd.date_obj is not None, None
        return "bad", True, {"cls": {"form": sub, "kind": problem.split(" %")[0].split(" 'f")[0][:40]}, "expected": ref,
                             "observed": (dd.date_obj, dd.period, dd.locale), "detail": {"string": s, "languages": langs, "region": region, "problem": problem}}

    if sub == "all-language-pairs-numeric":
        lo = vocab.language_order()
        if c["a"] == c["b"]:
            return None
        la, lb = lo[c["a"]], lo[c["b"]]
        s = c["ns"]
        langs = [la, lb]
        order = langs if c["ugo"] else sorted(langs, key=prio)
        st = {"RELATIVE_BASE": BASE}
        o = api.outcome_of(api.gdd, s, langs, None, None, st, None, c["ugo"])
        if o[0] == "exc":
            return "bad", True, {"cls": {"form": sub, "kind": "exception:" + o[1]}, "expected": "no exception", "observed": o[1:],
                                 "detail": {"string": s, "languages": langs}}
        got = (o[1].date_obj, o[1].period, o[1].locale)
        exp = None
        for l in order:
            r = single(s, l)
            if r[0] == "exc":
                return None
            if r[0] is not None:
                exp = r
                break
        if got == (exp or (None, "day", None)):
            return "ok", exp is not None, None
        return "bad", True, {"cls": {"form": sub, "kind": "not the first successful language's result", "ugo": c["ugo"],
                                     "variant_involved": "-" in la or "-" in lb},
                             "expected": exp, "observed": got, "detail": {"string": s, "languages": langs, "priority_order": order}}
    lst = gen if c["src"] == "gen" else cor
    if c["s"] >= len(lst):
        return None
    kind, lang, s = lst[c["s"]]
    if lang not in vocab.language_order():
        return None
    if sub == "autodetect-reproducible":
        st = {"RELATIVE_BASE": BASE}
        a = api.outcome_of(api.gdd, s, None, None, None, st)
        if a[0] == "exc":
            return "bad", True, {"cls": {"form": sub, "kind": "exception:" + a[1]}, "expected": "no exception", "observed": a[1:], "detail": {"string": s}}
        dd = a[1]
        if dd.date_obj is None:
            return "undetected", False, None
        b = api.outcome_of(api.gdd, s, None, [dd.locale], None, st)
        fb = b[1:] if b[0] == "exc" else (b[1].date_obj, b[1].period, b[1].locale)
        if fb == (dd.date_obj, dd.period, dd.locale):
            return "ok", True, None
        return "bad", True, {"cls": {"form": sub, "detected": dd.locale, "kind": "re-parse differs"}, "expected": (dd.date_obj, dd.period, dd.locale),
                             "observed": fb, "detail": {"string": s}}
    ll = lists_for(lang)
    if c["li"] >= len(ll):
        return None
    langs = list(ll[c["li"]])
    order = langs if c["ugo"] else sorted(langs, key=prio)
    dl = {"none": None, "en": ["en"], "detected": [lang], "other": ["es"]}[c["dl"]]
    st = {"RELATIVE_BASE": BASE}
    if dl:
        st["DEFAULT_LANGUAGES"] = dl
    via = c.get("via", "languages")
    if via == "locales":
        o = api.outcome_of(api.gdd, s, None, langs, None, st, None, c["ugo"])
    else:
        o = api.outcome_of(api.gdd, s, langs, None, None, st, None, c["ugo"])
    if o[0] == "exc":
        return "bad", True, {"cls": {"form": sub, "kind": "exception:" + o[1]}, "expected": "no exception", "observed": o[1:],
                             "detail": {"string": s, "languages": langs, "settings": st, "via": via}}
    dd = o[1]
    got = (dd.date_obj, dd.period, dd.locale)
    exp = None
    for l in order:
        r = single(s, l)
        if r[0] == "exc":
            return None
        if r[0] is not None:
            exp = r
            break
    problem = None
    allowed = set(langs) | set(dl or [])
    if dd.locale is not None and dd.locale not in allowed:
        problem = "reported locale outside the selected languages"
    elif exp is not None:
        if got != exp:
            problem = "not the first successful language's result" if not dl else "DEFAULT_LANGUAGES changed a result"
    elif not dl and dd.date_obj is not None:
        problem = "a result although no selected language parses"
    elif dl:
        # fallback: DEFAULT_LANGUAGES are tried (in priority order) after the selected ones
        d_order = sorted(dl, key=prio)
        d_res = [single(s, l) for l in d_order]
        if all(r[0] != "exc" for r in d_res):
            if d_res[0][0] is not None and got != d_res[0]:
                problem = "DEFAULT_LANGUAGES fallback not used"
            elif any(r[0] is not None for r in d_res) and dd.date_obj is None:
                problem = "DEFAULT_LANGUAGES fallback not used"
    if problem is None:
        return ("ok" if exp is not None else "none-or-default"), exp is not None, None
    return "bad", True, {"cls": {"form": sub, "kind": problem, "n": len(langs), "ugo": c["ugo"], "via": via}, "expected": exp, "observed": got,
                         "detail": {"string": s, "languages": langs, "priority_order": order, "settings": st, "via": via}}


_sl = {}


def single_loc(s, loc):
    k = (s, loc)
    if k not in _sl:
        if len(_sl) > 200:
            _sl.clear()
        o = api.outcome_of(api.gdd, s, None, [loc], None, {"RELATIVE_BASE": BASE})
        _sl[k] = ("exc",) + o[1:] if o[0] == "exc" else (o[1].date_obj, o[1].period, o[1].locale)
    return _sl[k]
