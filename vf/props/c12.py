"""C12 — timezone settings preserve the instant; awareness follows the setting (E1)."""
import os
import time
from datetime import datetime, timedelta
from datetime import tzinfo

import pytz

from .. import api
from ..space import Product

ID = "C12"
LEVEL = "exploration"
TECHNIQUE = "bounded-exhaustive enumeration of (TIMEZONE, TO_TIMEZONE, local datetime, parser form, awareness setting, process zone) against pytz used independently as the zone database"
RULE = ("cases = complete products listed under subspaces (every pytz common zone + every library offset + abbreviations as "
        "TIMEZONE and as TO_TIMEZONE; all ordered pairs of representative zones; TIMEZONE='local' under several TZ values) x 5 "
        "parser forms x 3 awareness settings; local times in a DST gap or ambiguous are skipped; non-trivial = the library "
        "returned a datetime; distinct = distinct case tuples")
ASSUMPTIONS = [
    "pytz (localize(is_dst=None), astimezone) is the reference zone database",
    "relative phrases are judged only when base and result share one UTC offset in TIMEZONE",
    "timestamp form only for local datetimes whose epoch value has ten digits",
]
CHUNK = 1500
FORMS = ["absolute", "absolute+zone", "relative", "relative+zone", "timestamp", "custom-format"]
AWARE = [None, True, False]
STR_ZONES = [("+0530", 19800), ("-0800", -28800), ("UTC", 0), ("EST", -18000)]
LOCALS = [datetime(y, m, 15, 12, 34, 56) for y in (1975, 2005, 2030) for m in (1, 4, 7, 10)]
REP = ["UTC", "America/New_York", "America/St_Johns", "America/Sao_Paulo", "America/Los_Angeles", "America/Caracas",
       "Europe/London", "Europe/Moscow", "Europe/Paris", "Africa/Cairo", "Africa/Johannesburg", "Asia/Kolkata", "Asia/Kathmandu",
       "Asia/Tehran", "Asia/Kabul", "Asia/Yangon", "Asia/Tokyo", "Asia/Shanghai", "Asia/Dubai", "Australia/Lord_Howe",
       "Australia/Adelaide", "Australia/Sydney", "Australia/Eucla", "Pacific/Chatham", "Pacific/Auckland", "Pacific/Kiritimati",
       "Pacific/Pago_Pago", "Pacific/Honolulu", "Pacific/Apia", "Atlantic/Azores", "America/Anchorage", "America/Phoenix",
       "+0530", "-1200", "+1400", "UTC+05:45", "-0330", "EST", "JST", "ACST"]
# offsets (seconds) from a zone's own UTC transition instant: the instant W used by the dst-transitions sub-space
DST_DELTAS = [-90000, -46800, -36000, -10800, -3660, -1, 0, 1, 3660, 10800, 36000, 46800, 90000]
DST_YEARS = (2020, 2021, 2022)
TZENVS = ["UTC", "America/New_York", "Asia/Kolkata", "Australia/Lord_Howe"]
_Z = None


def zone_names():
    global _Z
    if _Z is None:
        from dateparser.timezones import timezone_info_list
        lib = {}
        for name, sec in timezone_info_list[0]["timezones"]:
            plain = name.replace("\\", "")
            lib[plain[3:].replace(":", "")] = sec     # "+0530"
            lib[plain] = sec                          # "UTC+05:30"
        n = 0
        for name, sec in timezone_info_list[1]["timezones"]:
            if name.isascii() and name.isalpha() and name.isupper() and name not in lib and n < 24 and len(name) >= 3:
                try:
                    pytz.timezone(name)     # names pytz also knows (EST, MST, ...) resolve through pytz first: keep pytz meaning
                    continue
                except pytz.UnknownTimeZoneError:
                    pass
                lib[name] = sec
                n += 1
        _Z = (list(pytz.common_timezones), lib)
    return _Z


def ref_zone(name):
    try:
        return pytz.timezone(name)
    except pytz.UnknownTimeZoneError:
        sec = zone_names()[1].get(name)
        if sec is None:
            from dateparser.timezones import timezone_info_list
            for blk in timezone_info_list:
                for nm, s in blk["timezones"]:
                    if nm.replace("\\", "") == name:
                        sec = s
            if sec is None:
                raise
        return _Fixed(timedelta(seconds=sec), name)


class _Fixed(tzinfo):
    """Fixed offset with pytz's localize() signature."""

    def __init__(self, off, name):
        self._off, self._name = off, name

    def utcoffset(self, dt):
        return self._off

    def dst(self, dt):
        return timedelta(0)

    def tzname(self, dt):
        return self._name

    def localize(self, dt, is_dst=None):
        return dt.replace(tzinfo=self)


_TR = {}


def transitions(zone):
    """UTC transition instants of a tz-database zone in DST_YEARS (read from pytz's table)."""
    if zone not in _TR:
        z = pytz.timezone(zone)
        _TR[zone] = [t for t in getattr(z, "_utc_transition_times", []) if t.year in DST_YEARS]
    return _TR[zone]


def spaces(tier, seed):
    T = tier == "thorough"
    pz, lib = zone_names()
    allz = pz + sorted(lib)
    dstz = [z for z in (pz if T else REP) if z in pytz.all_timezones_set and transitions(z)]
    sp = [
        Product("every-zone-as-TIMEZONE", {"A": allz, "B": [None, "UTC", "Asia/Kathmandu"], "w": range(len(LOCALS)), "form": FORMS,
                                           "aware": AWARE, "tzenv": ["UTC"]}),
        Product("every-zone-as-TO_TIMEZONE", {"A": ["UTC", "America/New_York"], "B": allz, "w": range(len(LOCALS)), "form": FORMS,
                                              "aware": AWARE, "tzenv": ["UTC"]}),
        Product("pairs-representative", {"A": REP, "B": REP, "w": [1, 2, 4, 6, 9, 11], "form": FORMS, "aware": [None, True],
                                         "tzenv": ["UTC"]}),
        Product("other-tz-database-names-as-TIMEZONE", {"A": sorted(set(pytz.all_timezones) - set(pytz.common_timezones)),
                                                       "B": [None, "UTC"], "w": range(len(LOCALS)), "form": [f for f in FORMS if f not in ("absolute+zone", "relative+zone")],
                                                       "aware": AWARE, "tzenv": ["UTC"]},
                note="(forms in which TIMEZONE is the source zone) deprecated/alias tz-database names incl. those that are also library abbreviations (CET, EET, MET, WET, EST5EDT, Etc/GMT+N): TIMEZONE resolves through the tz database first"),
        Product("local-process-zone", {"tzenv": TZENVS, "A": ["local", None], "B": [None, "UTC", "Asia/Tokyo", "America/New_York"],
                                       "w": range(len(LOCALS)), "form": FORMS, "aware": AWARE}),
    ]
    sp.append(Product("dst-transitions", {"A": dstz, "t": range(2 * len(DST_YEARS)), "d": DST_DELTAS, "B": [None, "UTC", "Asia/Kathmandu"],
                                          "form": FORMS, "aware": [None, True], "tzenv": ["UTC"]},
                      note="instants around every clock change of the zone itself in %s (wall times in the gap or the repeated hour are skipped for the "
                           "forms that write a wall time; the timestamp form writes the instant)" % (DST_YEARS,)))
    sp.append(Product("relative-with-aware-base", {"X": [0, -180, 330, 540], "A": [None, "UTC", "Asia/Kolkata", "+0500", "Asia/Tokyo"],
                                                   "B": [None, "UTC", "Asia/Kolkata", "+0500", "Asia/Tokyo", "-0800"], "w": [0, 5, 11],
                                                   "ph": ["in 2 hours", "1 day ago", "yesterday 8:30", "in 1 month"], "aware": AWARE, "tzenv": ["UTC"], "same_instant": [False, True]},
                      note="RELATIVE_BASE is zone-aware (fixed offset X minutes): the arithmetic is done on the base's own wall clock, TO_TIMEZONE re-expresses the result's instant"))
    sp.append(Product("custom-format-with-%z", {"A": [None, "UTC", "America/New_York", "Asia/Kolkata", "+0300"], "B": [None, "UTC", "Asia/Tokyo", "-0800"],
                                                "z": ["+0000", "+0530", "-0800", "+1400", "-0330", "+0100"], "w": [0, 5, 11],
                                                "zf": ["%Y-%m-%d %H:%M:%S %z", "%z %d/%m/%Y %H.%M.%S", "%d %B %Y %I:%M:%S %p (%z)"], "aware": AWARE, "tzenv": ["UTC"]},
                      note="the string names its own zone through the format's %z directive"))
    if T:
        sp.append(Product("all-pairs", {"A": pz, "B": pz, "w": [5, 7], "form": ["absolute"], "aware": [True], "tzenv": ["UTC"]}))
        years = [datetime(y, m, d, 12, 34, 56) for y in range(1950, 2038) for (m, d) in ((1, 15), (3, 28), (7, 1), (10, 30))]
        sp.append(Product("all-years", {"A": pz, "B": ["UTC"], "xw": years, "form": ["absolute"], "aware": [None], "tzenv": ["UTC"]}))
    return sp


_cur_tz = [os.environ.get("TZ", "UTC")]


def set_process_zone(name):
    if _cur_tz[0] != name:
        os.environ["TZ"] = name
        time.tzset()
        import tzlocal
        tzlocal.reload_localzone()
        _cur_tz[0] = name


def run_case(sub, c):
    set_process_zone(c["tzenv"])
    try:
        return _run(sub, c)
    finally:
        if c["tzenv"] != "UTC":
            set_process_zone("UTC")


def _run_z(sub, c):
    """date_formats with %z: the string names its own zone.  Statement: TIMEZONE (if given) and TO_TIMEZONE re-express the instant; the
    result is aware unless RETURN_AS_TIMEZONE_AWARE is False."""
    W = LOCALS[c["w"]]
    A, B, aware, z = c["A"], c["B"], c["aware"], c["z"]
    zmin = (int(z[1:3]) * 60 + int(z[3:5])) * (-1 if z[0] == "-" else 1)
    inst = pytz.FixedOffset(zmin).localize(W)
    names = {"%Y": "%04d" % W.year, "%m": "%02d" % W.month, "%d": "%02d" % W.day, "%H": "%02d" % W.hour, "%M": "%02d" % W.minute, "%S": "%02d" % W.second,
             "%B": ["January", "February", "March", "April", "May", "June", "July", "August", "September", "October", "November", "December"][W.month - 1],
             "%I": "%02d" % (W.hour % 12 or 12), "%p": "AM" if W.hour < 12 else "PM", "%z": z}
    s = c["zf"]
    for k, v in names.items():
        s = s.replace(k, v)
    st = {}
    if A is not None:
        st["TIMEZONE"] = A
    if B is not None:
        st["TO_TIMEZONE"] = B
    if aware is not None:
        st["RETURN_AS_TIMEZONE_AWARE"] = aware
    target = B or A
    e = inst.astimezone(ref_zone(target)) if target else inst
    exp = (e.replace(tzinfo=None), e.utcoffset(), aware is not False)
    # what the library is known to do instead (finding C12-K1): TIMEZONE is ignored, and the result is naive unless RETURN_AS_TIMEZONE_AWARE is True
    k = inst.astimezone(ref_zone(B)) if B else inst
    known = (k.replace(tzinfo=None), k.utcoffset(), aware is True)
    o = api.outcome_of(api.gdd, s, ["en"], None, None, st or None, [c["zf"]])
    if o[0] == "exc":
        got, prob = o[1:], "exception " + o[1]
    else:
        r = got = o[1].date_obj
        if r is None:
            prob = "no result"
        else:
            obs = (r.replace(tzinfo=None), r.utcoffset(), r.tzinfo is not None)

            def same(x):
                return obs[0] == x[0] and obs[2] == x[2] and (not obs[2] or obs[1] == x[1])
            if same(exp):
                return "ok", True, None
            prob = "known: TIMEZONE ignored / naive unless RETURN_AS_TIMEZONE_AWARE is True" if same(known) else (
                "awareness" if obs[2] != exp[2] else ("wall clock" if obs[0] != exp[0] else "utc offset"))
    return "bad", True, {"cls": {"form": "custom-format+%z", "sub": sub, "aware_setting": aware, "problem": prob, "TIMEZONE": A is not None},
                         "expected": {"wall": exp[0], "offset": exp[1], "aware": exp[2]}, "observed": got,
                         "detail": {"string": s, "settings": st, "date_formats": [c["zf"]]}}


def _run_aware_base(sub, c):
    from ..refmodel import relative
    W = LOCALS[c["w"]]
    zx = pytz.FixedOffset(c["X"])
    if c.get("same_instant"):
        # the same instant for every X (aware datetimes of one instant compare and hash equal): W is its UTC wall clock
        W = pytz.utc.localize(W).astimezone(zx).replace(tzinfo=None)
    base = zx.localize(W)
    parts, sign, clockv = {"in 2 hours": ([(2, "hour")], 1, None), "1 day ago": ([(1, "day")], -1, None), "yesterday 8:30": ([(1, "day")], -1, (8, 30)),
                           "in 1 month": ([(1, "month")], 1, None)}[c["ph"]]
    wall = relative.shift(W, parts, sign)
    if clockv:
        wall = wall.replace(hour=clockv[0], minute=clockv[1], second=0, microsecond=0)
    res = zx.localize(wall)                      # the result in the base's own zone
    A, B, aware = c["A"], c["B"], c["aware"]
    st = {"RELATIVE_BASE": base}
    if A is not None:
        st["TIMEZONE"] = A
    if B is not None:
        st["TO_TIMEZONE"] = B
    if aware is not None:
        st["RETURN_AS_TIMEZONE_AWARE"] = aware
    e = res.astimezone(ref_zone(B)) if B else res
    exp_wall, exp_off = e.replace(tzinfo=None), e.utcoffset()
    exp_aware = aware is True
    o = api.outcome_of(api.gdd, c["ph"], ["en"], None, None, st)
    if o[0] == "exc":
        got, prob = o[1:], "exception " + o[1]
    else:
        r = got = o[1].date_obj
        if r is None:
            prob = "no result"
        elif (r.tzinfo is not None) != exp_aware:
            prob = "awareness"
        elif r.replace(tzinfo=None) != exp_wall:
            prob = "wall clock"
        elif r.tzinfo is not None and r.utcoffset() != exp_off:
            prob = "utc offset"
        else:
            return "ok", True, None
    return "bad", True, {"cls": {"form": "relative-with-aware-base", "sub": sub, "aware_setting": aware, "problem": prob, "same_zone_twice": A is not None and A == B},
                         "expected": {"wall": exp_wall, "offset": exp_off, "aware": exp_aware}, "observed": got,
                         "detail": {"string": c["ph"], "settings": st}}


def _run(sub, c):
    if sub == "custom-format-with-%z":
        return _run_z(sub, c)
    if sub == "relative-with-aware-base":
        return _run_aware_base(sub, c)
    A, B, form, aware = c["A"], c["B"], c["form"], c["aware"]
    if sub == "dst-transitions":
        tr = transitions(A)
        if c["t"] >= len(tr):
            return None
        u = tr[c["t"]] + timedelta(seconds=c["d"])          # naive UTC instant
        if form == "timestamp":
            W = u                                            # the timestamp form writes the instant
        else:
            W = pytz.utc.localize(u).astimezone(pytz.timezone(A)).replace(tzinfo=None)   # that instant's wall time in A
    else:
        W = c["xw"] if "xw" in c else LOCALS[c["w"]]
    a_name = c["tzenv"] if A in ("local", None) else A
    za = ref_zone(a_name)
    st = {}
    if A is not None:
        st["TIMEZONE"] = A
    if B is not None:
        st["TO_TIMEZONE"] = B
    if aware is not None:
        st["RETURN_AS_TIMEZONE_AWARE"] = aware
    fmts = None
    named_zone = False
    try:
        if form in ("absolute", "custom-format", "relative"):
            inst = za.localize(W, is_dst=None)
        elif form in ("absolute+zone", "relative+zone"):
            inst = None
        else:
            inst = pytz.utc.localize(W)
    except (pytz.NonExistentTimeError, pytz.AmbiguousTimeError):
        return None
    if form == "absolute":
        s = W.strftime("%Y-%m-%d %H:%M:%S")
        target = B or a_name
    elif form == "custom-format":
        s = W.strftime("%d/%m/%Y %H.%M.%S")
        fmts = ["%d/%m/%Y %H.%M.%S"]
        target = B or a_name
    elif form == "absolute+zone":
        zname, zsec = STR_ZONES[(c.get("w", 0) + len(str(A))) % len(STR_ZONES)]
        s = W.strftime("%Y-%m-%d %H:%M:%S") + " " + zname
        inst = pytz.FixedOffset(zsec // 60).localize(W)
        named_zone = True
        # TIMEZONE re-expresses the instant unless it is 'local' (then the string's own zone is kept)
        target = B or (a_name if A not in ("local", None) else None)
    elif form == "relative+zone":
        zname, zsec = STR_ZONES[(c.get("w", 0) + len(str(A))) % len(STR_ZONES)]
        s = "in 2 hours " + zname
        st["RELATIVE_BASE"] = W
        zz = pytz.FixedOffset(zsec // 60)
        if A in ("local", None):
            start = zz.localize(W)                     # a naive base is read in the string's own zone
        else:
            try:
                start = za.localize(W, is_dst=None).astimezone(zz)
            except (pytz.NonExistentTimeError, pytz.AmbiguousTimeError):
                return None
        inst = start + timedelta(hours=2)
        named_zone = True
        target = B
        if B is None:
            e0 = inst
    elif form == "relative":
        s = "in 2 hours"
        st["RELATIVE_BASE"] = W
        res_local = W + timedelta(hours=2)
        try:
            chk = za.localize(res_local, is_dst=None)
        except (pytz.NonExistentTimeError, pytz.AmbiguousTimeError):
            return None
        if chk.utcoffset() != inst.utcoffset():
            return None
        inst = chk
        target = B or a_name
    else:
        n = int((W - datetime(1970, 1, 1)).total_seconds())
        if not 10 ** 9 <= n < 10 ** 10:
            return None
        s = str(n)
        target = B or a_name
    if target is None and form == "relative+zone":
        exp_wall = inst.replace(tzinfo=None)
        exp_off = inst.utcoffset()
    elif target is None:
        exp_wall = W
        exp_off = inst.utcoffset()
    else:
        e = inst.astimezone(ref_zone(target))
        exp_wall = e.replace(tzinfo=None)
        exp_off = e.utcoffset()
    exp_aware = True if aware is True else (False if aware is False else named_zone)
    o = api.outcome_of(api.gdd, s, ["en"], None, None, st or None, fmts)
    problems = []
    if o[0] == "exc":
        problems.append("exception " + o[1])
        got = o[1:]
    else:
        r = o[1].date_obj
        got = r
        if r is None:
            problems.append("no result")
        else:
            if (r.tzinfo is not None) != exp_aware:
                problems.append("awareness: got %s" % ("aware" if r.tzinfo is not None else "naive"))
            if r.replace(tzinfo=None) != exp_wall:
                problems.append("wall clock")
            if r.tzinfo is not None and r.utcoffset() != exp_off:
                problems.append("utc offset")
    if not problems:
        return "ok", True, None
    return "bad", True, {"cls": {"form": form, "sub": sub, "aware_setting": aware, "problem": problems[0].split(":")[0],
                                 "A_kind": "local" if A in ("local", None) else ("pytz" if a_name in pytz.all_timezones_set else "library"),
                                 "B_kind": None if B is None else ("pytz" if B in pytz.all_timezones_set else "library")},
                         "expected": {"wall": exp_wall, "offset": exp_off, "aware": exp_aware}, "observed": got,
                         "detail": {"string": s, "settings": st, "date_formats": fmts, "TZ": c["tzenv"], "problems": problems}}
