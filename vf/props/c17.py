"""C17 — search_dates is total and its hits are well-formed, in-text, in order (E1)."""
from datetime import datetime

from .. import api, vocab
from ..space import Listed, Product

ID = "C17"
LEVEL = "exploration"
TECHNIQUE = "bounded-exhaustive enumeration of texts as token sequences (depth <= 2/3/4) over each language's own vocabulary plus shared tokens, for all 205 languages x selection modes; oracle = the well-formedness contract"
RULE = ("texts = all sequences of <= k tokens over a per-language alphabet (own month/weekday/unit/relative words, numbers, "
        "times, numeric dates, filler words, punctuation, line breaks), joined with the language's word joiner; every "
        "relative-type phrase of every language in 4 contexts; non-trivial = search_dates returned at least one hit; "
        "distinct = distinct (language, text, selection, options)")
ASSUMPTIONS = [
    "'occurs in the text up to whitespace' = equality after removing all whitespace from both; order = a non-decreasing assignment of start positions exists (greedy earliest match)",
    "bound is on token depth over the listed alphabets",
]
CHUNK = 300
TASKS_PER_CHILD = 100
LANGS = vocab.languages()
BASE = datetime(2020, 2, 29, 13, 14, 15)
SHARED = ["12", "2014", "10:30", "31/12/2014", ".", ",", "!", "?", ";", "(", ")", "-", "—", "\n", "  ", "\xa0", "5"]
FILLER = {"default": ["foo", "the"], "zh": ["我", "很好"], "ja": ["私", "です"], "ru": ["кот", "с"], "ar": ["قطة", "هذا"], "he": ["חתול", "זה"],
          "th": ["แมว", "นี่"], "hi": ["बिल्ली", "यह"], "ko": ["고양이", "이"], "el": ["γάτα", "το"]}
_ALPHA = {}


def alphabet(lang):
    """(core20, core8, all_relative_phrases, joiner) for a language, from its own vocabulary (specification data)."""
    if lang in _ALPHA:
        return _ALPHA[lang]
    info = vocab.locale_info(lang)
    own = []
    for k in ("january", "monday", "hour", "ago", "in", "day"):
        v = [x for x in (info.get(k) or []) if x]
        if v:
            own.append(v[0])
    rel = []
    for k, vals in (info.get("relative-type") or {}).items():
        rel.extend(vals)
    fill = FILLER.get(lang.split("-")[0], FILLER["default"])
    core20 = (own + rel[:3] + fill + SHARED)[:22]
    core8 = (own[:2] + rel[:1] + ["12", "2014", ".", fill[0], "\n"])[:8]
    joiner = "" if "no_word_spacing" in info else " "
    _ALPHA[lang] = (core20, core8, rel, joiner, fill)
    return _ALPHA[lang]


def _max(f):
    return max(len(f(l)) for l in LANGS)


def spaces(tier, seed):
    T = tier == "thorough"
    n20 = max(len(alphabet(l)[0]) for l in LANGS)
    nrel = max(len(alphabet(l)[2]) for l in LANGS)
    sel = ["lang"] if not T else ["lang", "lang+en"]
    adl = [True] if not T else [False, True]
    sp = [
        Product("depth2-core20", {"lang": LANGS, "i": range(-1, n20), "j": range(n20), "sel": sel, "adl": adl, "base": [True]},
                note="all token sequences of length 1..2 over the per-language 20-token core (i=-1: length 1)"),
        Product("depth2-core8-autodetect", {"lang": LANGS, "i": range(-1, 8), "j": range(8), "sel": ["auto"], "adl": [True],
                                            "base": [True] if not T else [True, False]},
                note="no languages given: full-text language detection over all languages (20-50 ms per call)"),
        Product("relative-phrases-in-context", {"lang": LANGS, "r": range(nrel), "ctx": range(4), "sel": ["lang"], "adl": [True],
                                                "base": [False, True]},
                note="every relative-type phrase of every language alone, + terminator, after a filler word, before a number"),
        Product("relative-phrases-autodetect", {"lang": LANGS, "r": range(nrel), "ctx": [0] if not T else range(4), "sel": ["auto"],
                                                "adl": [True], "base": [True]}),
        Product("depth3-core8", {"lang": LANGS, "i": range(8), "j": range(8), "k": range(8), "sel": ["lang"], "adl": [True], "base": [True, False] if T else [True]}),
    ]
    sp.append(Product("date-skipword-number", {"lang": LANGS, "d": range(4), "w": range(18), "n": ["5", "10:00", "12 2014"], "sel": ["lang"],
                                               "adl": [True], "base": [True]},
                      note="a date-ish token, then each skip word / 'in' / 'ago' word of the language, then a number"))
    sp.append(Product("chained-reference-dates", {"lang": LANGS, "t1": ["5/3/2010 10:00 EST", "31/12/2014 23:59 +0300", "2010-03-05 10:00 PM CDT", "5/3/2010"],
                                                  "t2": ["12/04/11", "3/7/09", "{month}", "{weekday}", "10:30", "{rel}"], "join": [". ", " "],
                                                  "sel": ["lang"], "adl": [True], "base": [False, True]},
                      note="an earlier hit (with or without a timezone) becomes the reference date of a later partial hit when no RELATIVE_BASE is given"))
    sp.append(Product("typographic-apostrophes", {"lang": LANGS, "aw": range(12), "apo": ["'", "\u2019", "\u02bc", "\u2032"], "ctx": [0, 1],
                                                  "sel": ["lang"], "adl": [True], "base": [True]},
                      note="every vocabulary word of the language that contains an apostrophe, spelled with each apostrophe look-alike"))
    sp.append(Product("unicode-normalization-forms", {"lang": LANGS, "uw": range(14), "nf": ["NFD", "NFC", "NFKD"], "ctx": [0, 1, 2], "sel": ["lang"], "adl": [True],
                                                      "base": [True]},
                      note="month / weekday / relative words of the language that contain a character with a canonical decomposition, written in another "
                           "normalization form than the vocabulary's (decomposed accents as produced by macOS file names, PDF extractors, scrapers)"))
    sp.append(Product("apostrophe-like-marks-in-running-text", {"lang": LANGS, "mark": ["'", "\u2019", "\u00b4", "`", "\u02b9", "\u2032"], "tpl": range(4), "sel": ["lang", "auto"],
                                                                "adl": [True], "base": [True]},
                      note="an elided word written with an apostrophe look-alike (it´s, l`an ...) next to a date, with a detached separator after it"))
    sp.append(Product("simplification-phrases", {"lang": LANGS, "sw": range(12), "ctx": range(4), "sel": ["lang"], "adl": [True], "base": [True, False]},
                      note="every literal phrase the language's simplification rules rewrite (to a number, a clock time, another phrase - often with another number "
                           "of tokens), alone and next to other tokens: the code that re-aligns rewritten and original tokens is what cuts the substrings"))
    sp.append(Product("several-relative-hits-without-a-base", {"lang": LANGS, "r1": range(3), "r2": range(3), "join": [" ", ". ", ", "], "tz": ["", " EST", " UTC+05:30"],
                                                               "sel": ["lang"], "adl": [True], "base": [False]},
                      note="two relative phrases in one text and no RELATIVE_BASE (each earlier hit is itself relative), optionally followed by a timezone"))
    sp.append(Product("simplification-and-relative-autodetect", {"lang": LANGS, "sw": range(3), "ctx": [1], "r1": [0], "r2": [1], "join": [". "], "tz": [" EST"], "kind": ["simp", "rel"],
                                                                 "sel": ["auto"], "adl": [True], "base": [False]}))
    sp.append(Product("two-dates-with-and-without-a-dropped-word", {"lang": LANGS, "d": range(4), "d2": [0, 1], "w": range(10), "order": [0, 1], "sel": ["lang"], "adl": [True, False], "base": [True]},
                      note="two full dates next to each other (a chunk that only parses after splitting), once joined by a space and once by a word the translation drops; both texts searched in one case, in both orders, the first text once more at the end: every call well-formed, the repeated call equal to the first"))
    sp.append(Product("two-language-requests-in-sequence", {"lang": ["en"], "p1": range(len(PAIRS)), "p2": range(len(PAIRS)), "t1": range(len(WORDS)), "t2": range(len(WORDS)),
                                                            "sel": ["pair"], "adl": [True], "base": [True]},
                      note="two searches in one case, each with two requested languages and a one-word text that may belong to neither (the detector is then inconclusive): "
                           "the second result must be well-formed and its language among the second call's languages, whatever the first call requested"))
    sp.append(Product("glued-punctuation", {"lang": LANGS, "i": range(6), "j": range(6), "glue": [",", "'", ".", "-", ":", "/", ";", ")(", "\u2019", ",,"],
                                            "sel": ["lang"], "adl": [True], "base": [True]},
                      note="two tokens joined by a punctuation mark without spaces"))
    if T:
        sp.append(Product("depth3-core20", {"lang": LANGS, "i": range(n20), "j": range(n20), "k": range(n20), "sel": ["lang"], "adl": [True], "base": [True]}))
        sp.append(Product("depth4-core8", {"lang": LANGS, "i": range(8), "j": range(8), "k": range(8), "l": range(8), "sel": ["lang"], "adl": [True], "base": [True]}))
    return sp


def text_of(sub, c):
    if sub == "two-language-requests-in-sequence":
        return WORDS[c["t2"]]
    core20, core8, rel, joiner, fill = alphabet(c["lang"])
    if sub.startswith("relative-phrases"):
        if c["r"] >= len(rel):
            return None
        p = rel[c["r"]]
        return [p, p + ".", fill[0] + (joiner or "") + p if joiner else fill[0] + p, p + joiner + "12"][c["ctx"]]
    if sub == "chained-reference-dates":
        t2 = c["t2"].replace("{month}", core8[0]).replace("{weekday}", core8[1] if len(core8) > 1 else "12").replace("{rel}", rel[0] if rel else "12")
        return c["t1"] + c["join"] + t2
    if sub == "simplification-and-relative-autodetect":
        sub = "simplification-phrases" if c["kind"] == "simp" else "several-relative-hits-without-a-base"
    if sub == "simplification-phrases":
        import re as _re
        info = vocab.locale_info(c["lang"])
        ws = []
        for d_ in info.get("simplifications") or []:
            for k_ in d_:
                if not _re.search(r"[\\()\[\]?*+|{}^$.]", k_):
                    ws.append(k_)
        if c["sw"] >= len(ws):
            return None
        w = ws[c["sw"]]
        j = joiner or " "
        return [w, w + j + core8[0] + j + "2014", fill[0] + j + w + j + (rel[0] if rel else "12") + ".", "12" + j + w + j + w + j + "2014"][c["ctx"]]
    if sub == "several-relative-hits-without-a-base":
        if c["r1"] >= len(rel) or c["r2"] >= len(rel):
            return None
        return rel[c["r1"]] + c["join"] + rel[c["r2"]] + c["tz"]
    if sub == "apostrophe-like-marks-in-running-text":
        j = joiner or " "
        m = c["mark"]
        d = "5" + j + core8[0] + j + "2015"
        return ["It" + m + "s" + j + d + j + "," + j + fill[0], "l" + m + fill[0] + j + d + j + ";" + j + "12",
                "it" + m + "s" + j + (rel[0] if rel else "12") + j + ",", d + j + "," + j + "c" + m + "est" + j + core8[1 if len(core8) > 1 else 0]][c["tpl"]]
    if sub == "unicode-normalization-forms":
        import unicodedata
        info = vocab.locale_info(c["lang"])
        ws = []
        for k in vocab.MONTH_KEYS + vocab.WEEKDAY_KEYS:
            ws += [w for w in (info.get(k) or [])[:2] if w and unicodedata.normalize(c["nf"], w) != w]
        for vals in (info.get("relative-type") or {}).values():
            ws += [w for w in vals[:1] if w and unicodedata.normalize(c["nf"], w) != w]
        if c["uw"] >= len(ws):
            return None
        w = unicodedata.normalize(c["nf"], ws[c["uw"]])
        j = joiner or " "
        return [("5" + j + w + j + "2014"), (fill[0] + j + w + j + "10:30" + j + fill[0]), (w + "," + j + "12" + j + w)][c["ctx"]]
    if sub == "typographic-apostrophes":
        info = vocab.locale_info(c["lang"])
        ws = []
        for k in vocab.MEANING_KEYS:
            ws += [w for w in (info.get(k) or []) if any(a in w for a in "'\u2019\u02bc")]
        for vals in (info.get("relative-type") or {}).values():
            ws += [w for w in vals if any(a in w for a in "'\u2019\u02bc")]
        if c["aw"] >= len(ws):
            return None
        w = ws[c["aw"]]
        for a in "\u2019\u02bc":
            w = w.replace(a, "'")
        w = w.replace("'", c["apo"])
        j = joiner or " "
        return w + j + "10:30" if c["ctx"] == 0 else fill[0] + j + w + j + "2014"
    if sub == "date-skipword-number":
        info = vocab.locale_info(c["lang"])
        words = [w for w in (info.get("skip") or []) if w.strip() and any(ch.isalpha() for ch in w)][:10] + (info.get("in") or [])[:3] + (info.get("ago") or [])[:3] + list(fill)   # fill: e.g. ru 'с', which search_dates special-cases
        dts = [x for x in (core8[:3] + ["15 " + core8[0]])]
        if c["w"] >= len(words) or c["d"] >= len(dts):
            return None
        j = joiner or " "
        return dts[c["d"]] + j + words[c["w"]] + j + c["n"]
    if sub == "two-dates-with-and-without-a-dropped-word":
        info = vocab.locale_info(c["lang"])
        words = [w for w in (info.get("skip") or []) if w.strip() and any(ch.isalpha() for ch in w)][:10]
        dts = [x for x in (core8[:3] + ["15 " + core8[0]])]
        if c["w"] >= len(words) or c["d"] >= len(dts):
            return None
        j = joiner or " "
        first = dts[c["d"]] if any(ch.isdigit() for ch in dts[c["d"]]) else "10" + j + dts[c["d"]] + j + "2015"
        second = ["5" + j + core8[0] + "," + j + "2016", "12" + j + core8[0] + j + "2014"][c["d2"]]
        return first + j + words[c["w"]] + j + second if not c.get("_plain") else first + j + second
    if sub == "glued-punctuation":
        if c["i"] >= len(core8) or c["j"] >= len(core8):
            return None
        return core8[c["i"]] + c["glue"] + core8[c["j"]]
    alpha = core8 if "core8" in sub else core20
    idx = [c[k] for k in ("i", "j", "k", "l") if k in c and c[k] >= 0]
    if any(i >= len(alpha) for i in idx):
        return None
    return joiner.join(alpha[i] for i in idx)


PAIRS = [(a, b) for a in ("en", "es", "fr", "de", "ru", "it") for b in ("en", "es", "fr", "de", "ru", "it") if a != b]
WORDS = ["hier", "\u0432\u0447\u0435\u0440\u0430", "ayer", "yesterday", "gestern", "demain", "ma\u00f1ana", "ieri 10:30"]


def squeeze(s):
    return "".join(s.split())


def judge(text, res, adl, requested):
    if res is None:
        return None
    if not isinstance(res, list) or not res:
        return "result is neither None nor a non-empty list"
    flat = squeeze(text)
    pos = 0
    for t in res:
        if not isinstance(t, tuple) or len(t) != (3 if adl else 2):
            return "item is not a %d-tuple" % (3 if adl else 2)
        sub, dt = t[0], t[1]
        if not isinstance(sub, str) or not isinstance(dt, datetime):
            return "item is not (str, datetime)"
        if not sub.strip():
            return "blank substring"
        f = squeeze(sub)
        at = flat.find(f, pos)
        if at < 0:
            if flat.find(f) < 0:
                return "substring not in text"
            return "hits out of text order"
        pos = at
        if adl:
            lang = t[2]
            if not isinstance(lang, str) or not lang:
                return "language is not a single code"
            if requested and lang not in requested:
                return "language not among the requested ones"
    return None


def run_case(sub, c):
    from dateparser.search import search_dates
    text = text_of(sub, c)
    if text is None or not text.strip():
        return None
    langs = {"lang": [c["lang"]], "auto": None, "pair": None, "lang+en": [c["lang"], "en"] if c["lang"] != "en" else ["en", "fr"]}[c["sel"]]
    kw = {"languages": langs, "add_detected_language": c["adl"]}
    if c["base"]:
        kw["settings"] = {"RELATIVE_BASE": BASE}
    if sub == "two-language-requests-in-sequence" and text is not None:
        l1, l2 = list(PAIRS[c["p1"]]), list(PAIRS[c["p2"]])
        t1, t2 = WORDS[c["t1"]], WORDS[c["t2"]]
        st = {"RELATIVE_BASE": BASE}
        for t, ls in ((t1, l1), (t2, l2)):
            o = api.outcome_of(search_dates, t, languages=ls, add_detected_language=True, settings=dict(st))
            if o[0] == "exc":
                return "bad", True, {"cls": {"form": "exception", "exception": o[1], "site": o[3], "sub": sub}, "expected": "no exception",
                                     "observed": o[1:], "detail": {"calls_in_order": [[t1, l1], [t2, l2]], "failing_text": t}}
            prob = judge(t, o[1], True, ls)
            if prob is not None:
                return "bad", True, {"cls": {"form": "malformed", "problem": prob, "sub": sub}, "expected": "well-formed hits, language among %s" % ls,
                                     "observed": o[1], "detail": {"calls_in_order": [[t1, l1], [t2, l2]], "failing_text": t}}
        return ("hits" if o[1] else "none"), bool(o[1]), None
    if sub == "two-dates-with-and-without-a-dropped-word":
        plain = text_of(sub, dict(c, _plain=True))
        seq = [plain, text, plain] if c["order"] == 0 else [text, plain, text]
        outs = []
        for t in seq:
            o = api.outcome_of(search_dates, t, **kw)
            if o[0] == "exc":
                return "bad", True, {"cls": {"form": "exception", "exception": o[1], "site": o[3], "sub": sub}, "expected": "no exception",
                                     "observed": o[1:], "detail": {"texts_in_order": seq, "failing_text": t, "kwargs": kw}}
            prob = judge(t, o[1], c["adl"], langs)
            if prob is not None:
                return "bad", True, {"cls": {"form": "malformed", "problem": prob, "sub": sub}, "expected": "well-formed hits",
                                     "observed": o[1], "detail": {"texts_in_order": seq, "failing_text": t, "kwargs": kw}}
            outs.append(o[1])
        if outs[0] != outs[2]:
            return "bad", True, {"cls": {"form": "repeated search differs", "sub": sub}, "expected": outs[0], "observed": outs[2],
                                 "detail": {"texts_in_order": seq, "kwargs": kw}}
        return ("hits" if outs[0] or outs[1] else "none"), bool(outs[0] or outs[1]), None
    o = api.outcome_of(search_dates, text, **kw)
    if o[0] == "exc":
        return "bad", True, {"cls": {"form": "exception", "exception": o[1], "site": o[3]}, "expected": "no exception",
                             "observed": o[1:], "detail": {"text": text, "kwargs": kw}}
    prob = judge(text, o[1], c["adl"], langs)
    if prob is None:
        return ("hits" if o[1] else "none"), bool(o[1]), None
    return "bad", True, {"cls": {"form": "malformed", "problem": prob}, "expected": "well-formed hits",
                         "observed": o[1], "detail": {"text": text, "kwargs": kw}}


def describe(sub, c):
    return {"text": text_of(sub, c)}
