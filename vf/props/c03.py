"""C03 — results depend only on the call's arguments, never on call history (E2: explicit-state BFS over histories)."""
import copy
import json
import multiprocessing as mp
import os
import random
import subprocess
import sys
import time
from datetime import datetime

from .. import clock, codec
from ..target import VERIF, InfraError, ensure

ID = "C03"
LEVEL = "model_checking"
TECHNIQUE = "explicit-state breadth-first search over call histories of the real library: each transition is one real API call executed in a child forked from a pristine process after replaying the history; states are canonical snapshots of all library-reachable mutable state; invariant = outcome equals the outcome from the initial state (differential), caller-owned arguments untouched, default settings pristine"
RULE = ("alphabet = the listed concrete API calls (chosen so that every piece of shared state is written by at least two events "
        "with conflicting values); all histories up to the stated depth; a transition = (history, event); states deduplicated "
        "on the snapshot hash; the initial-state outcome of every event is also computed in genuinely fresh interpreters under "
        "other hash seeds and must agree")
ASSUMPTIONS = [
    "fork() gives the child an exact copy of the pristine parent's library state; validated on every run against fresh `python -c` interpreters",
    "the clock is virtual and constant (vf.clock) and the process zone is UTC, so the reference time is part of the arguments",
    "two states with equal canonical snapshots have equal futures (the library reads no other mutable state)",
]
B = datetime(2015, 6, 15, 12, 30, 45)
NOW = datetime(2020, 2, 29, 8, 9, 10)
S1 = {"PREFER_DATES_FROM": "past", "PREFER_DAY_OF_MONTH": "first"}

_persist = {}


def _pp(key, **kw):
    from dateparser.date import DateDataParser
    if key not in _persist:
        _persist[key] = DateDataParser(**kw)
    return _persist[key]


def _events():
    import dateparser
    from dateparser.date import DateDataParser
    from dateparser.search import search_dates
    from dateparser.calendars.jalali import JalaliCalendar
    from dateparser.calendars.hijri import HijriCalendar
    E = []

    def ev(name, fn, args=None, core=False, slow=False):
        E.append({"name": name, "fn": fn, "args": args or {}, "core": core, "slow": slow})

    P = dateparser.parse
    ev("parse(num) default", lambda a: P("02/03/2015"), core=True)
    ev("parse(num, fr)", lambda a: P("02/03/2015", languages=a["l"]), {"l": ["fr"]}, core=True)
    ev("parse(num, en)", lambda a: P("02/03/2015", languages=a["l"]), {"l": ["en"]})
    ev("parse(num, fr+en)", lambda a: P("02/03/2015", languages=a["l"]), {"l": ["fr", "en"]})
    ev("parse(rel fr, autodetect, base)", lambda a: P("il y a 2 jours", settings=a["s"]), {"s": {"RELATIVE_BASE": B}})
    ev("parse(num, locales fr-PF)", lambda a: P("02/03/2015 lundi", locales=a["l"]), {"l": ["fr-PF"]}, core=True)
    ev("parse(num, en+fr region PF)", lambda a: P("02/03/2015", languages=a["l"], region="PF"), {"l": ["en", "fr"]}, core=True)
    ev("parse(num, locales en-GB)", lambda a: P("02/03/2015", locales=a["l"]), {"l": ["en-GB"]})
    ev("parse(skip foo)", lambda a: P("12 foo march 2015", languages=["en"], settings=a["s"]), {"s": {"SKIP_TOKENS": ["foo"]}}, core=True)
    ev("parse(skip bar)", lambda a: P("12 foo march 2015", languages=["en"], settings=a["s"]), {"s": {"SKIP_TOKENS": ["bar"]}}, core=True)
    ev("parse(skip foo+bar)", lambda a: P("12 foo march 2015", languages=["en"], settings=a["s"]), {"s": {"SKIP_TOKENS": ["foo", "bar"]}}, core=True)
    ev("parse(foo string, default settings)", lambda a: P("12 foo march 2015", languages=a["l"]), {"l": ["en"]})
    ev("parse(normalize off)", lambda a: P("4 decembre 2015", languages=["fr"], settings=a["s"]), {"s": {"NORMALIZE": False}}, core=True)
    ev("parse(normalize on)", lambda a: P("4 decembre 2015", languages=["fr"], settings=a["s"]), {"s": {"NORMALIZE": True}})
    ev("parse(order DMY)", lambda a: P("02/03/2015", languages=["en"], settings=a["s"]), {"s": {"DATE_ORDER": "DMY"}})
    # the caller's own long-lived dict: filled and used for a call, later changed by its owner (no library call involved in the
    # change).  A call made afterwards with a fresh dict of the original content must not see the owner's later edits.
    def _own():
        return _persist.setdefault("dict:x", {})

    def _with_own(a):
        x = _own()
        x.clear()
        x.update(a["s"])
        r = P("02/03/2015", languages=["en"], settings=x)
        return r if x == a["s"] else ("caller's dict modified", dict(x), r)
    ev("caller fills its own dict with DATE_ORDER=DMY and parses with it", _with_own, {"s": {"DATE_ORDER": "DMY"}}, core=True)
    ev("caller empties its own dict (no library call)", lambda a: _own().clear(), core=True)
    ev("parse(order YMD)", lambda a: P("02/03/04", languages=["en"], settings=a["s"]), {"s": {"DATE_ORDER": "YMD"}})
    ev("parse(fr, no locale order)", lambda a: P("02/03/2015", languages=["fr"], settings=a["s"]), {"s": {"PREFER_LOCALE_DATE_ORDER": False}})
    ev("parse(default languages fr)", lambda a: P("il y a 2 jours", languages=["en"], settings=a["s"]), {"s": {"DEFAULT_LANGUAGES": ["fr"], "RELATIVE_BASE": B}})
    ev("parse(invalid fr date, default settings)", lambda a: P("32 janvier 2020", languages=a["l"]), {"l": ["fr"]}, core=True)
    ev("parse(de fails then en)", lambda a: P("12/25/2020", languages=a["l"]), {"l": ["de", "en"]})
    ev("parse(tl numeric)", lambda a: P("01/02/2020", languages=a["l"]), {"l": ["tl"]})
    ev("parse(tl numeric, explicit DMY)", lambda a: P("01/02/2020", languages=["tl"], settings=a["s"]), {"s": {"DATE_ORDER": "DMY"}}, core=True)
    NS = {"PARSERS": ["absolute-time", "no-spaces-time"]}
    ev("parse(digits only, no-spaces parser, fr)", lambda a: P("200177", languages=["fr"], settings=a["s"]), {"s": dict(NS)}, core=True)
    ev("parse(digits only, no-spaces parser, en)", lambda a: P("200177", languages=["en"], settings=a["s"]), {"s": dict(NS)})
    ev("parse(digits only, no-spaces parser, en, YMD)", lambda a: P("200177", languages=["en"], settings=a["s"]), {"s": dict(NS, DATE_ORDER="YMD")})
    ev("parse(fallback to 2 default languages)", lambda a: P("xyzzy plugh", languages=["en"], settings=a["s"]), {"s": {"DEFAULT_LANGUAGES": ["fr", "en"]}})
    ev("persistent tl parser, given order, 2 defaults", lambda a: _pp("tl", languages=["tl"], use_given_order=True, settings=a["s"]).get_date_data("01/02/2020 10h30"),
       {"s": {"DEFAULT_LANGUAGES": ["fr", "en"]}})
    ev("persistent tl parser, numeric", lambda a: _pp("tl", languages=["tl"], use_given_order=True, settings=a["s"]).get_date_data("01/02/2020"),
       {"s": {"DEFAULT_LANGUAGES": ["fr", "en"]}})
    ev("time-only TIMEZONE +0500", lambda a: P("10:00", languages=["en"], settings=a["s"]),
       {"s": {"TIMEZONE": "+0500", "RELATIVE_BASE": B, "PREFER_DATES_FROM": "past"}}, core=True)
    ev("time-only TIMEZONE -0500", lambda a: P("10:00", languages=["en"], settings=a["s"]),
       {"s": {"TIMEZONE": "-0500", "RELATIVE_BASE": B, "PREFER_DATES_FROM": "past"}}, core=True)
    ev("persistent fr parser, explicit MDY", lambda a: _pp("frmdy", languages=["fr"], settings=a["s"]).get_date_data("01/02/2020"),
       {"s": {"DATE_ORDER": "MDY"}}, core=True)
    ev("parse(settings spell out a default)", lambda a: P("01/02/2020", languages=["fr"], settings=a["s"]), {"s": {"PREFER_LOCALE_DATE_ORDER": True}}, core=True)
    ev("parse(settings spell out another default)", lambda a: P("01/02/2020", languages=["en"], settings=a["s"]), {"s": {"DATE_ORDER": "MDY"}})
    ev("search(de+en, digits only)", lambda a: search_dates("Final: 01.02.2020, 03.04.2021", languages=a["l"], add_detected_language=True), {"l": ["de", "en"]})
    ev("search(en+de, digits only)", lambda a: search_dates("Final: 01.02.2020, 03.04.2021", languages=a["l"], add_detected_language=True), {"l": ["en", "de"]})
    ev("parse(string zone UTC)", lambda a: P("2014-05-05 10:00 UTC", languages=["en"]), core=True)
    ev("parse(string zone UTC+05:30)", lambda a: P("2014-05-05 10:00 UTC+05:30", languages=["en"]), core=True)
    ev("parse(string zone GMT+0800 (CST))", lambda a: P("Fri Sep 23 2016 10:34:51 GMT+0800 (CST)", languages=["en"]))
    ev("parse(string zone CST)", lambda a: P("2014-05-05 10:00 CST", languages=["en"]))
    ev("parse(parsers absolute only)", lambda a: P("yesterday", languages=["en"], settings=a["s"]), {"s": {"PARSERS": ["absolute-time"]}})
    ev("parse(en, cache limit 1)", lambda a: P("02/03/2015", languages=["en"], settings=a["s"]), {"s": {"CACHE_SIZE_LIMIT": 1}}, core=True)
    ev("parse(fr, cache limit 1)", lambda a: P("2 mars 2015", languages=["fr"], settings=a["s"]), {"s": {"CACHE_SIZE_LIMIT": 1}}, core=True)
    ev("parse(de, cache limit 2)", lambda a: P("2. März 2015", languages=["de"], settings=a["s"]), {"s": {"CACHE_SIZE_LIMIT": 2}}, core=True)
    ev("parse(March, base)", lambda a: P("March", languages=["en"], settings=a["s"]), {"s": {"RELATIVE_BASE": B}})
    ev("parse(March) clock", lambda a: P("March", languages=["en"]))
    ev("persistent fr parser", lambda a: _pp("fr", languages=["fr"]).get_date_data("02/03/2015"), core=True)
    ev("persistent S1 parser", lambda a: _pp("s1", languages=["en"], settings=a["s"]).get_date_data("March"), {"s": dict(S1)}, core=True)
    ev("fresh S1 parser", lambda a: DateDataParser(languages=["en"], settings=a["s"]).get_date_data("March"), {"s": dict(S1)})
    ev("search(en)", lambda a: search_dates("on 2 March 2015 and yesterday", languages=a["l"]), {"l": ["en"]}, core=True)
    ev("search(fr, S1)", lambda a: search_dates("le 2 mars 2015 et hier", languages=a["l"], settings=a["s"]), {"l": ["fr"], "s": dict(S1)}, core=True)
    ev("search(en, S1, lang)", lambda a: search_dates("in March, then on 5 May 2011", languages=["en"], settings=a["s"], add_detected_language=True), {"s": dict(S1)})
    ev("search(autodetect)", lambda a: search_dates("El 2 de marzo de 2015 y ayer"), slow=True)
    ev("persistent NORMALIZE-off parser", lambda a: _pp("nn", languages=["fr"], settings=a["s"]).get_date_data("4 decembre 2015"), {"s": {"NORMALIZE": False}}, core=True)
    ev("search(autodetect, NORMALIZE off)", lambda a: search_dates("Le 4 décembre 2015 et hier", settings=a["s"]), {"s": {"NORMALIZE": False}})
    ev("jalali", lambda a: JalaliCalendar("جمعه سی ام اسفند ۱۳۸۷").get_date())
    ev("hijri", lambda a: HijriCalendar("17-01-1437 هـ 08:30 مساءً").get_date())
    # a valid settings dict and wrongly typed ones whose values print / compare / hash like the valid one: validation must not
    # be remembered under a key that confuses them
    ev("parse(STRICT_PARSING True, CACHE 500)", lambda a: P("March 2015", languages=["en"], settings=a["s"]), {"s": {"STRICT_PARSING": True, "CACHE_SIZE_LIMIT": 500}})
    ev("fail: STRICT_PARSING 'True', CACHE '500' (print like valid values)", lambda a: P("March 2015", languages=["en"], settings=a["s"]),
       {"s": {"STRICT_PARSING": "True", "CACHE_SIZE_LIMIT": "500"}})
    ev("fail: STRICT_PARSING 1, CACHE 500.0 (compare equal to valid values)", lambda a: P("March 2015", languages=["en"], settings=a["s"]),
       {"s": {"STRICT_PARSING": 1, "CACHE_SIZE_LIMIT": 500.0}})
    # language detection inside search reads per-locale character sets with NORMALIZE off; ordinary parses fill per-locale caches with
    # NORMALIZE on: detection between two candidate languages that hinges on an accented letter must not depend on which came first
    ev("parse(es, accented)", lambda a: P("5 de marzo de 2021, miércoles", languages=a["l"]), {"l": ["es"]}, core=True)
    ev("search(en+es, accent decides the language)", lambda a: search_dates("Año: March 5, 2021", languages=a["l"], add_detected_language=True), {"l": ["en", "es"]}, core=True)
    ev("parse(de, accented)", lambda a: P("5. März 2021", languages=a["l"]), {"l": ["de"]})
    ev("search(en+de, accent decides the language)", lambda a: search_dates("März: 5 March 2021", languages=a["l"], add_detected_language=True), {"l": ["en", "de"]})
    # strings that translate to nothing (only skipped words) in locales whose own order is not the default one
    ev("parse(only skip words, fr)", lambda a: P("le", languages=a["l"]), {"l": ["fr"]})
    ev("parse(only skip words, ru, autodetect)", lambda a: P("в"))
    # a search that raises part-way through building a lazily cached per-locale list, then an ordinary search in that locale
    ev("fail: search(da, bytes skip token)", lambda a: search_dates("Mødet blev holdt d. 5. januar 2014 kl. 10:30", languages=["da"], settings=a["s"]), {"s": {"SKIP_TOKENS": [b"t"]}}, core=True)
    ev("search(da, dotted abbreviations)", lambda a: search_dates("Mødet blev holdt d. 5. januar 2014 kl. 10:30 i København.", languages=a["l"]), {"l": ["da"]}, core=True)
    # a zone designator that is also a dictionary word, parsed once with SKIP_TOKENS naming it and once with the default settings
    ev("parse(...Z, SKIP_TOKENS t+z)", lambda a: P("2019-12-31T23:59:59Z", languages=["en"], settings=a["s"]), {"s": {"SKIP_TOKENS": ["t", "z"]}})
    ev("parse(...Z, default settings)", lambda a: P("2021-03-04T12:34:56Z", languages=["en"]))
    ev("parse(... GMT, SKIP_TOKENS gmt)", lambda a: P("Tue, 10 Mar 2020 08:00:00 GMT", languages=["en"], settings=a["s"]), {"s": {"SKIP_TOKENS": ["t", "gmt"]}})
    ev("parse(... GMT+5, default settings)", lambda a: P("Thu, 04 Mar 2021 12:34:56 GMT+5", languages=["en"]))
    # lenient clock spellings (24-hour value with a meridian) before ordinary 12-hour times
    ev("parse(16:50 pm)", lambda a: P("December 23, 2010, 16:50 pm", languages=["en"]))
    ev("parse(3:30 PM)", lambda a: P("March 5, 2024 3:30 PM", languages=["en"]))
    # the same numbers through both calendar parsers: a conversion remembered by one must not answer for the other
    ev("jalali 1394/06/26", lambda a: JalaliCalendar("1394/06/26").get_date())
    ev("hijri 1394/06/26", lambda a: HijriCalendar("1394/06/26").get_date())
    ev("fail: unknown setting", lambda a: P("2015-03-02", settings=a["s"]), {"s": {"BOGUS": 1}})
    ev("fail: unknown language", lambda a: P("2015-03-02", languages=a["l"]), {"l": ["xx"]})
    ev("fail: non-str", lambda a: P(5))
    ev("fail: conflicting locales", lambda a: P("2015-03-02", locales=a["l"]), {"l": ["fr-PF", "fr-BE"]})
    ev("parse(garbage autodetect)", lambda a: P("zzzz qqqq"), slow=True)
    return E


def canon(v):
    if isinstance(v, datetime):
        return "dt:%s|%s|%s" % (v.replace(tzinfo=None).isoformat(), v.utcoffset(), v.tzname())
    if v is None or isinstance(v, (str, int, float, bool)):
        return repr(v)
    if isinstance(v, (list, tuple)):
        return "[" + ",".join(canon(x) for x in v) + "]"
    if type(v).__name__ == "DateData":
        return "DateData(%s,%s,%s)" % (canon(v.date_obj), v.period, v.locale)
    return repr(v)


_EVENTS = None


def events():
    global _EVENTS
    if _EVENTS is None:
        _EVENTS = _events()
    return _EVENTS


def default_settings_fingerprint():
    from dateparser.conf import settings
    keys = sorted(settings._get_settings_from_pyfile().keys())
    return canon([(k, getattr(settings, k, "<missing>")) for k in keys]) + "|default=%r" % settings._default


def step(i):
    e = events()[i]
    args = copy.deepcopy(e["args"])
    before = copy.deepcopy(args)
    try:
        out = "ok:" + canon(e["fn"](args))
    except BaseException as ex:  # noqa: BLE001
        if isinstance(ex, (KeyboardInterrupt, SystemExit)):
            raise
        out = "exc:" + type(ex).__name__
    return out, args == before


def _child(task):
    """Runs in a process freshly forked from the pristine parent: replay the history, then the event."""
    hist, want_snapshot = task
    try:
        from .. import snapshot as snap
        if os.environ.get("VERIF_COVERAGE"):
            from .. import linecov
            linecov.enable("C03")
        clock.freeze(NOW)
        outs = []
        untouched = []
        pristine = []
        base_fp = default_settings_fingerprint()
        for i in hist:
            o, u = step(i)
            outs.append(o)
            untouched.append(u)
            pristine.append(default_settings_fingerprint() == base_fp)
        # the harness's long-lived parser instances are part of the state: whether one exists decides what a later
        # "persistent parser" event does
        h = snap.snapshot(extra_roots=dict(_persist))[0] if want_snapshot else None
        if os.environ.get("VERIF_COVERAGE"):
            linecov.flush()
        return {"hist": hist, "outs": outs, "untouched": untouched, "pristine": pristine, "state": h}
    except Exception:  # noqa: BLE001
        import traceback
        return {"error": traceback.format_exc(), "hist": hist}


def _explore(alphabet, depth, extend_alphabet, extend_depth, jobs, deadline, seed, prefix=(), s0=None, extend_from=None):
    """Level-synchronous BFS.  Levels <= depth: ALL histories over `alphabet` (no pruning).  Levels depth+1..extend_depth:
    from every distinct state of the previous level (one representative history), over `extend_alphabet`."""
    ensure()
    import dateparser  # noqa: F401
    import dateparser.search  # noqa: F401
    import dateparser.calendars.jalali  # noqa: F401
    import dateparser.calendars.hijri  # noqa: F401
    clock.install()
    ev = events()
    t0 = time.time()
    ctx = mp.get_context("fork")
    res = {"transitions": 0, "states": set(), "violations": [], "outcomes": {}, "levels": [], "s0": {}, "complete": True}
    with ctx.Pool(jobs, maxtasksperchild=1) as pool:
        def run_level(hists, want_state=True):
            out = []
            for r in pool.imap_unordered(_child, [(list(h), want_state) for h in hists], chunksize=1):
                if "error" in r:
                    raise InfraError("child failed on %s: %s" % (r["hist"], r["error"]))
                out.append(r)
                if time.time() - t0 > deadline:
                    res["complete"] = False
                    break
            return out
        # s0 outcomes
        base = run_level([tuple(prefix) + (i,) for i in alphabet | extend_alphabet])
        for r in base:
            res["s0"][r["hist"][-1]] = r["outs"][-1]
        if s0 is not None:
            res["s0"] = dict(s0)
        s0_prefix_outs = None
        frontier = [tuple(prefix)]
        level_hists = [tuple(prefix) + (i,) for i in sorted(alphabet)]
        lvl = 1
        reps = {}
        while lvl <= extend_depth and level_hists and res["complete"]:
            results = run_level(level_hists, lvl < extend_depth) if lvl > 1 else [r for r in base if r["hist"][-1] in alphabet]
            new_states = {}
            for r in results:
                res["transitions"] += 1
                h = tuple(r["hist"])
                e = h[-1]
                res["outcomes"].setdefault(e, set()).add(r["outs"][-1])
                # replayed prefix must reproduce the s0-relative outcomes already judged (determinism of replay)
                if r["outs"][-1] != res["s0"][e]:
                    res["violations"].append({"kind": "outcome differs from the initial-state outcome", "history": list(h),
                                              "event": ev[e]["name"], "expected": res["s0"][e], "observed": r["outs"][-1]})
                if not r["untouched"][-1]:
                    res["violations"].append({"kind": "caller-owned argument modified", "history": list(h), "event": ev[e]["name"],
                                              "expected": "arguments unchanged", "observed": "changed"})
                if not r["pristine"][-1]:
                    res["violations"].append({"kind": "default settings changed", "history": list(h), "event": ev[e]["name"],
                                              "expected": "module default settings pristine", "observed": "changed"})
                if r["state"] is not None and r["state"] not in res["states"]:
                    res["states"].add(r["state"])
                    new_states[r["state"]] = h
            res["levels"].append({"depth": lvl, "histories": len(results), "new_states": len(new_states)})
            lvl += 1
            if lvl <= depth:
                level_hists = [h + (i,) for h in [tuple(x["hist"]) for x in results] for i in sorted(alphabet)]
            elif lvl <= extend_depth:
                # extension levels: from every distinct state (one representative history); in the quick tier only from
                # states whose history consists of collision-prone events (extend_from)
                level_hists = [h + (i,) for h in new_states.values() for i in sorted(extend_alphabet)
                               if extend_from is None or all(x in extend_from for x in h[len(prefix):])]
            else:
                level_hists = []
    res["states"] = len(res["states"]) + 1
    res["outcomes"] = {ev[k]["name"]: sorted(v) for k, v in res["outcomes"].items()}
    res["s0"] = {ev[k]["name"]: v for k, v in res["s0"].items()}
    return res


def fresh_outcomes(indices, hashseed):
    """s0 outcome of each event in a genuinely fresh interpreter (no fork shortcut), under another hash seed."""
    code = ("import sys, json; sys.path[:0] = %r\n"
            "from vf.props import c03\nfrom vf import clock\nfrom vf.target import ensure\nensure()\n"
            "import dateparser\nclock.install(); clock.freeze(c03.NOW)\n"
            "i = int(sys.argv[1]); print(json.dumps(c03.step(i)[0]))\n") % ([VERIF],)
    out = {}
    procs = []
    env = dict(os.environ, PYTHONHASHSEED=str(hashseed))
    for i in indices:
        procs.append((i, subprocess.Popen([sys.executable, "-c", code, str(i)], stdout=subprocess.PIPE, stderr=subprocess.PIPE, text=True, env=env)))
        if len(procs) >= 16:
            for j, p in procs:
                o, e = p.communicate(timeout=300)
                if p.returncode != 0:
                    raise InfraError("fresh interpreter failed for event %d: %s" % (j, e[-1500:]))
                out[j] = json.loads(o.strip().splitlines()[-1])
            procs = []
    for j, p in procs:
        o, e = p.communicate(timeout=300)
        if p.returncode != 0:
            raise InfraError("fresh interpreter failed for event %d: %s" % (j, e[-1500:]))
        out[j] = json.loads(o.strip().splitlines()[-1])
    return out


def run(tier, seed, jobs, deadline, report):
    ensure()
    E = events()
    T = tier == "thorough"
    full = {i for i, e in enumerate(E) if not e["slow"] or T}
    core = {i for i, e in enumerate(E) if e["core"]}
    all_core = set(core)
    # extension alphabet of the quick tier: the events that can *observe* left-over state (long-lived parser instances,
    # cache-limit calls, calls whose settings inherit from the module default)
    quick_core = {i for i, e in enumerate(E) if e["name"].startswith("persistent") or e["name"] in (
        "parse(en, cache limit 1)", "parse(fr, cache limit 1)", "parse(de, cache limit 2)", "search(fr, S1)",
        "parse(fr, no locale order)", "parse(tl numeric)", "parse(foo string, default settings)", "parse(order DMY)", "parse(digits only, no-spaces parser, en)")}
    if T:
        res = _explore(full, 3, core, 4, jobs, deadline, seed, extend_from=all_core)
    else:
        core = quick_core
        res = _explore(full, 2, core, 3, jobs, deadline, seed, extend_from=all_core)
    names = [e["name"] for e in E]
    # fork shortcut validated against genuinely fresh interpreters, under other hash seeds
    seeds = [1 + seed % 7] + ([11, 12345] if T else [])
    fresh_checked = 0
    for hs in seeds:
        fo = fresh_outcomes(sorted(full), hs)
        for i, o in fo.items():
            fresh_checked += 1
            if o != res["s0"][names[i]]:
                res["violations"].append({"kind": "outcome in a fresh interpreter differs (hash seed %d)" % hs, "history": [i],
                                          "event": names[i], "expected": res["s0"][names[i]], "observed": o})
    # second initial state (thorough): after one autodetect call that touched every language
    second = None
    if T:
        warm = next(i for i, e in enumerate(E) if e["name"] == "parse(garbage autodetect)")
        second = _explore(full, 2, set(), 2, jobs, max(60, deadline - 600), seed, prefix=(warm,),
                          s0={i: res["s0"][names[i]] for i in full})
        res["violations"] += [dict(v, kind=v["kind"] + " [from the all-languages-loaded initial state]") for v in second["violations"]]
        res["transitions"] += second["transitions"]
        res["states"] += second["states"]
    for v in res["violations"]:
        last = v["history"][-1]
        prior = [names[i] for i in v["history"][:-1]]
        report.add_violation({"cls": {"kind": v["kind"].split(" (hash")[0], "event": v["event"],
                                      "after": prior[-1] if prior else None},
                              "expected": v["expected"], "observed": v["observed"],
                              "detail": {"history": [names[i] for i in v["history"]], "history_indices": v["history"]}},
                             case={"history": v["history"]}, sub="histories")
    report.evaluations = res["transitions"] + fresh_checked
    report.nontrivial = res["transitions"]
    report.exhaustive = res["complete"]
    report.hist = {"transitions": res["transitions"], "violating": len(res["violations"])}
    report.samples = [{"history": [names[i] for i in h], "outcome_of_last": res["s0"][names[h[-1]]]} for h in ([0, 1], [17, 18, 19], [26, 23])]
    report.extra.update({
        "states": res["states"], "transitions": res["transitions"], "traces_validated_against_impl": res["transitions"],
        "alphabet": names, "alphabet_size": len(full), "collision_core": [names[i] for i in sorted(core)],
        "depth_full": 3 if T else 2, "depth_core_extension": 4 if T else 3, "levels": res["levels"],
        "distinct_outcomes_per_event": {k: len(v) for k, v in res["outcomes"].items()},
        "fresh_interpreter_checks": fresh_checked, "hash_seeds": [int(os.environ.get("PYTHONHASHSEED", "0") or 0)] + seeds,
        "initial_state_outcomes": res["s0"],
    })
    report.subspaces = [{"name": "level-%d" % l["depth"], "size": l["histories"], "executed": l["histories"], "complete": True,
                         "new_states": l["new_states"]} for l in res["levels"]]
    if not res["complete"]:
        report.notes.append("deadline hit: last level incomplete")


def replay(rec):
    ensure()
    import dateparser  # noqa: F401
    import dateparser.search  # noqa: F401
    clock.install()
    hist = rec["case"]["history"]
    names = [e["name"] for e in events()]
    ctx = mp.get_context("fork")
    with ctx.Pool(1, maxtasksperchild=1) as pool:
        a = pool.apply(_child, (([hist[-1]], False),))
    with ctx.Pool(1, maxtasksperchild=1) as pool:
        b = pool.apply(_child, ((list(hist), False),))
    if "error" in a or "error" in b:
        raise InfraError(str(a.get("error") or b.get("error")))
    probs = []
    if a["outs"][-1] != b["outs"][-1]:
        probs.append("outcome differs from the initial-state outcome")
    if not b["untouched"][-1]:
        probs.append("caller-owned argument modified")
    if not b["pristine"][-1]:
        probs.append("default settings changed")
    if not probs:
        if "fresh interpreter" in rec["class"]["kind"]:
            fo = fresh_outcomes([hist[-1]], 1)
            if fo[hist[-1]] != a["outs"][-1]:
                return {"cls": rec["class"], "expected": a["outs"][-1], "observed": fo[hist[-1]]}
        return None
    return {"cls": {"kind": probs[0], "event": names[hist[-1]], "after": names[hist[-2]] if len(hist) > 1 else None},
            "expected": a["outs"][-1], "observed": b["outs"][-1], "detail": {"history": [names[i] for i in hist]}}
