"""C04 — relative expressions are exact calendar arithmetic on the base (E1)."""
from datetime import datetime, timedelta
from itertools import permutations

import pytz

from .. import api, clock
from ..refmodel import cal, relative
from ..space import Listed, Product

ID = "C04"
LEVEL = "exploration"
TECHNIQUE = "bounded-exhaustive enumeration of (base, unit, count, direction, phrase shape, settings) against an independent calendar-arithmetic model"
RULE = ("cases = complete products / full sweeps (all counts 0..5000, all unit tuples) listed under subspaces; "
        "non-trivial = the library produced a datetime that the model had to match (None-expected range overflows "
        "are counted separately in the histogram); distinct = distinct case tuples")
ASSUMPTIONS = [
    "month/year/decade steps are applied before day/time steps (what 'calendar arithmetic' means when several units are added)",
    "decimals are judged for sub-day units only, as the statement says",
    "implicit-now cases are judged only when base and result share one UTC offset in TIMEZONE",
    "process zone is UTC; the clock is virtual (vf.clock), proven on every run",
]
CHUNK = 1500
UNITS = relative.UNITS


def _bases():
    out = []
    for y in (2023, 2024):
        for m in range(1, 13):
            out.append(datetime(y, m, cal.month_len(y, m), 23, 59, 59, 999999))
    out += [datetime(2024, 2, 28, 12, 0, 0, 1), datetime(2023, 2, 28, 0, 0, 0, 0), datetime(2024, 1, 1, 0, 0, 0, 0),
            datetime(2023, 12, 31, 23, 59, 59, 0), datetime(1800, 1, 1, 0, 0, 0, 0), datetime(1800, 12, 31, 23, 59, 59, 999999),
            datetime(1900, 2, 28, 13, 14, 15, 123456), datetime(1900, 3, 1, 0, 0, 1, 0), datetime(2000, 2, 29, 6, 30, 0, 500000),
            datetime(2100, 2, 28, 23, 0, 0, 0), datetime(2200, 12, 31, 23, 59, 59, 999999), datetime(2200, 1, 31, 0, 0, 0, 0),
            datetime(1999, 12, 31, 23, 59, 59, 999999), datetime(2000, 1, 1, 0, 0, 0, 0), datetime(2014, 9, 1, 10, 30, 0, 0),
            datetime(1969, 12, 31, 23, 59, 59, 999999)]
    return out


B1 = _bases()
B3 = [datetime(2024, 3, 31, 13, 14, 15, 123456), datetime(1800, 1, 1, 0, 0, 0, 0), datetime(2200, 12, 31, 23, 59, 59, 999999)]
FIXED = {
    "now": ([(0, "second")], -1), "today": ([(0, "day")], -1), "yesterday": ([(1, "day")], -1),
    "tomorrow": ([(1, "day")], 1), "last week": ([(1, "week")], -1), "next week": ([(1, "week")], 1),
    "last month": ([(1, "month")], -1), "next month": ([(1, "month")], 1), "last year": ([(1, "year")], -1),
    "next year": ([(1, "year")], 1), "day before yesterday": ([(2, "day")], -1), "day after tomorrow": ([(2, "day")], 1),
    "an hour ago": ([(1, "hour")], -1), "a week ago": ([(1, "week")], -1), "a decade ago": ([(1, "decade")], -1),
    "a minute ago": ([(1, "minute")], -1), "a month ago": ([(1, "month")], -1), "a year ago": ([(1, "year")], -1),
    "a day ago": ([(1, "day")], -1), "a second ago": ([(1, "second")], -1),
}
CLOCKS = [("at 10:45", (10, 45, 0, 0)), ("14:00", (14, 0, 0, 0)), ("at 2 pm", (14, 0, 0, 0)), ("23:59:59", (23, 59, 59, 0)),
          ("at 12:00 am", (0, 0, 0, 0)), ("12:30 pm", (12, 30, 0, 0)), ("00:00", (0, 0, 0, 0)), ("at 1:02:03", (1, 2, 3, 0))]
CLOCK_PHRASES = ["2 days ago", "in 3 weeks", "yesterday", "tomorrow", "1 month ago", "in 1 year", "today", "in 2 hours"]
NOW_ZONES = ["UTC", "America/New_York", "Asia/Kolkata", "Asia/Kathmandu", "Australia/Lord_Howe", "Pacific/Kiritimati",
             "Pacific/Pago_Pago", "Europe/London", "America/St_Johns", "+0530", "-1200", "EST", "UTC+05:45", "GMT+1"]
NOW_ZONES_T = NOW_ZONES + ["Asia/Tokyo", "Europe/Moscow", "America/Sao_Paulo", "Africa/Cairo", "Pacific/Auckland", "Pacific/Chatham",
                           "America/Los_Angeles", "Asia/Tehran", "Australia/Adelaide", "Atlantic/Azores", "America/Caracas",
                           "Asia/Yangon", "+1400", "UTC+05:45", "JST", "Asia/Dhaka", "Europe/Paris", "America/Denver",
                           "America/Anchorage", "Pacific/Honolulu", "Asia/Kabul", "Asia/Hong_Kong", "Africa/Johannesburg",
                           "America/Argentina/Buenos_Aires", "Atlantic/Reykjavik", "Asia/Dubai", "Europe/Istanbul"]
NOW_INSTANTS = [datetime(2021, 1, 15, 12, 0, 0, 250000), datetime(2024, 2, 29, 23, 30, 0, 0), datetime(2019, 7, 1, 0, 0, 1, 0),
                datetime(2030, 12, 31, 23, 59, 59, 999999)]
NOW_PHRASES = [("now", [(0, "second")], -1), ("2 hours ago", [(2, "hour")], -1), ("in 1 day", [(1, "day")], 1)]


# bases next to a clock change of the TIMEZONE zone: the phrase is wall-clock ("calendar") arithmetic on the base whatever lies between
DST_PHRASES = [("12 hours ago", [(12, "hour")], -1), ("in 90 minutes", [(90, "minute")], 1), ("in 3 hours", [(3, "hour")], 1),
               ("5000 hours ago", [(5000, "hour")], -1), ("1 day ago", [(1, "day")], -1), ("in 2 days", [(2, "day")], 1),
               ("in 86400 seconds", [(86400, "second")], 1), ("1 week ago", [(1, "week")], -1), ("in 1 month", [(1, "month")], 1), ("now", [(0, "second")], -1)]
DST_OFFS = [-46800, -7200, -3600, -1, 1, 3600, 7200, 46800]


def phrase(parts, sign, spell):
    bits = []
    for n, u in parts:
        plural = (str(n) not in ("1",)) if spell == "natural" else (spell == "plural")
        bits.append("%s %s%s" % (n, u, "s" if plural else ""))
    body = " ".join(bits)
    if sign == 0:
        return body
    return (body + " ago") if sign < 0 else ("in " + body)


def spaces(tier, seed):
    T = tier == "thorough"
    sp = []
    sp.append(Product("sweep-count", {"n": range(0, 5001), "u": UNITS, "sign": [-1, 1], "spell": ["natural"],
                                      "base": range(len(B1)) if T else [B1.index(b) for b in B1 if b in (B1[13], B1[24], B1[34])]},
                      note="all counts 0..5000 x all units x both directions"))
    sp.append(Product("core", {"n": [0, 1, 2, 11, 12, 13, 24, 99, 100, 365, 366, 1000, 5000], "u": UNITS, "sign": [-1, 1],
                               "spell": ["singular", "plural"], "base": range(len(B1))}))
    sp.append(Product("decimals", {"n": ["0.5", "1.5", "2.25", "1,5", "0.25", "10.75", "100.5"], "u": ["second", "minute", "hour"],
                                   "sign": [-1, 1], "spell": ["plural"], "base": range(len(B1))}))
    two = [(a, b) for a in UNITS for b in UNITS if a != b]
    sp.append(Product("two-units", {"us": two, "ns": [(1, 1), (2, 13), (13, 2), (0, 1)], "sign": [-1, 1], "spell": ["natural"],
                                    "base": range(len(B1))}, note="all 56 ordered unit pairs"))
    three = list(permutations(["year", "month", "week", "day", "hour"], 3)) + [("decade", "year", "month"), ("hour", "minute", "second"),
                                                                              ("day", "minute", "second"), ("decade", "week", "second")]
    sp.append(Product("three-units", {"us": three, "ns": [(1, 2, 3), (11, 1, 30)], "sign": [-1, 1], "spell": ["natural"],
                                      "base": range(len(B1))}))
    sp.append(Product("fixed-words", {"w": list(FIXED), "base": range(len(B1)), "rtp": [False, True]}))
    sp.append(Product("clock-suffix", {"p": CLOCK_PHRASES, "clock": range(len(CLOCKS)), "base": range(len(B1)), "rtp": [False, True]}))
    sp.append(Product("directionless", {"n": [1, 2, 13], "u": UNITS, "pdf": ["past", "future", "current_period"],
                                        "base": range(len(B1))}))
    ends = [datetime(1, 1, 1, 0, 0, 0), datetime(1, 1, 31, 12, 0, 0), datetime(2, 12, 31, 0, 0, 0), datetime(3, 3, 3, 3, 3, 3),
            datetime(9997, 1, 1, 0, 0, 0), datetime(9998, 2, 28, 0, 0, 0), datetime(9999, 12, 31, 23, 59, 59, 999999),
            datetime(9999, 1, 1, 0, 0, 0)]
    sp.append(Product("range-ends", {"n": [0, 1, 2, 3, 12, 13, 24, 36, 53, 366, 731, 1096, 9000, 10000, 99999999],
                                     "u": UNITS, "sign": [-1, 1], "spell": ["natural"], "xbase": ends}))
    zs = NOW_ZONES_T if T else NOW_ZONES
    sp.append(Product("implicit-now", {"tz": zs, "to": [None] + zs, "inst": range(len(NOW_INSTANTS)), "p": range(len(NOW_PHRASES))}))
    from .c12 import REP, transitions
    dstz = [z for z in (pytz.common_timezones if T else REP) if z in pytz.all_timezones_set and transitions(z)]
    sp.append(Product("base-next-to-a-clock-change", {"tz": dstz, "t": range(6), "d": DST_OFFS, "p": range(len(DST_PHRASES)),
                                                      "how": ["implicit-now", "aware-base", "aware-base+TIMEZONE"]},
                      note="the base is an instant within 13 h of a DST/offset change of the zone, given as the virtual clock with TIMEZONE=zone or as a "
                           "zone-aware RELATIVE_BASE; the naive wall-clock result must be base wall clock -/+ n units"))
    two_years = [datetime(2023, 1, 1) + timedelta(days=i, hours=23, minutes=59, seconds=59, microseconds=999999) for i in range(731)]
    sp.append(Product("sweep-base-2023-2024", {"xbase": two_years, "nu": [(1, "month"), (1, "year"), (13, "month"), (1, "day"), (1, "week"),
                                                                         (1, "decade"), (36, "hour"), (11, "month"), (4, "year")], "sign": [-1, 1]},
                      note="every day of a non-leap and a leap year as base"))
    if T:
        days = [datetime(1800, 1, 1) + timedelta(days=i, hours=7, minutes=8, seconds=9) for i in range(146462)]
        sp.append(Product("sweep-base", {"xbase": days, "nu": [(1, "month"), (1, "year"), (13, "month"), (1, "day"), (1, "week"),
                                                               (1, "decade"), (36, "hour")], "sign": [-1, 1]},
                          note="every day 1800-01-01..2200-12-31 as base"))
    return sp


_proved = False


def init_worker(tier, seed):
    clock.install()


def selfcheck():
    import dateparser
    clock.prove(dateparser.parse)


def _zone(name):
    try:
        return pytz.timezone(name)
    except pytz.UnknownTimeZoneError:
        import re
        m = re.match(r"^(?:UTC|GMT)?([+-])(\d{1,2})(?::?(\d{2}))?$", name)
        if m:
            mins = int(m.group(2)) * 60 + int(m.group(3) or 0)
            return pytz.FixedOffset(mins if m.group(1) == "+" else -mins)
        from dateparser.timezones import timezone_info_list
        for blk in timezone_info_list:
            for nm, sec in blk["timezones"]:
                if nm.replace("\\", "") == name:
                    return pytz.FixedOffset(sec // 60)
        raise


def run_case(sub, c):
    st = {}
    clockv = None
    rtp = c.get("rtp", False)
    if sub == "base-next-to-a-clock-change":
        from .c12 import transitions
        tr = transitions(c["tz"])
        if c["t"] >= len(tr):
            return None
        inst = tr[c["t"]] + timedelta(seconds=c["d"])
        text, parts, sign = DST_PHRASES[c["p"]]
        za = pytz.timezone(c["tz"])
        base_local = pytz.utc.localize(inst).astimezone(za)
        exp = relative.shift(base_local.replace(tzinfo=None), parts, sign)
        expp = relative.period(parts)
        if c["how"] == "implicit-now":
            st = {"TIMEZONE": c["tz"]}
            clock.freeze(inst)
        else:
            st = {"RELATIVE_BASE": base_local}
            if c["how"] == "aware-base+TIMEZONE":
                st["TIMEZONE"] = c["tz"]
        try:
            o = api.outcome_of(api.gdd, text, ["en"], None, None, st)
        finally:
            clock.freeze(None)
        cls = {"form": sub, "how": c["how"], "unit": parts[0][1]}
        if o[0] == "ok" and o[1].date_obj is not None and o[1].date_obj.replace(tzinfo=None) == exp and o[1].period == expp:
            return "ok", True, None
    elif sub == "implicit-now":
        inst = NOW_INSTANTS[c["inst"]]
        text, parts, sign = NOW_PHRASES[c["p"]]
        za = _zone(c["tz"])
        base_local = pytz.utc.localize(inst).astimezone(za)
        exp_local = relative.shift(base_local.replace(tzinfo=None), parts, sign)
        # precondition: no offset transition between base and result in TIMEZONE
        try:
            chk = za.localize(exp_local, is_dst=None)
        except Exception:
            return None
        if chk.utcoffset() != base_local.utcoffset():
            return None
        exp = exp_local
        st = {"TIMEZONE": c["tz"]}
        if c["to"]:
            exp = chk.astimezone(_zone(c["to"])).replace(tzinfo=None)
            st["TO_TIMEZONE"] = c["to"]
        clock.freeze(inst)
        try:
            o = api.outcome_of(api.gdd, text, ["en"], None, None, st)
        finally:
            clock.freeze(None)
        expp = relative.period(parts)
        cls = {"form": "implicit-now", "to": bool(c["to"])}
    else:
        base = c["xbase"] if "xbase" in c else B1[c["base"]]
        if sub == "fixed-words":
            text = c["w"]
            parts, sign = FIXED[text]
        elif sub == "clock-suffix":
            ptxt = c["p"]
            cl_txt, clockv = CLOCKS[c["clock"]]
            text = ptxt + " " + cl_txt
            parts, sign = PH[ptxt]
        elif sub == "directionless":
            parts = [(c["n"], c["u"])]
            text = phrase(parts, 0, "natural")
            sign = 1 if c["pdf"] == "future" else -1
            st["PREFER_DATES_FROM"] = c["pdf"]
        elif "us" in c:
            parts = list(zip(c["ns"], c["us"]))
            sign = c["sign"]
            text = phrase(parts, sign, c["spell"])
        elif "nu" in c:
            parts = [tuple(c["nu"])]
            sign = c["sign"]
            text = phrase(parts, sign, "natural")
        else:
            parts = [(c["n"], c["u"])]
            sign = c["sign"]
            text = phrase(parts, sign, c["spell"])
        exp = relative.shift(base, parts, sign)
        if exp is not None and clockv is not None:
            exp = exp.replace(hour=clockv[0], minute=clockv[1], second=clockv[2], microsecond=clockv[3])
        expp = relative.period(parts, clockv is not None, rtp)
        st["RELATIVE_BASE"] = base
        if rtp:
            st["RETURN_TIME_AS_PERIOD"] = True
        o = api.outcome_of(api.gdd, text, ["en"], None, None, st, None, False, False)
        cls = {"form": sub, "unit": "+".join(u for _, u in parts), "sign": sign}
    if o[0] == "ok":
        dd = o[1]
        if exp is None:
            if dd.date_obj is None:
                return "none-as-expected", False, None
            got = (dd.date_obj, dd.period)
            kind = "value-instead-of-none"
        else:
            if dd.date_obj == exp and dd.date_obj.tzinfo is None and dd.period == expp:
                return "ok", True, None
            got = (dd.date_obj, dd.period)
            kind = "none" if dd.date_obj is None else ("wrong-period" if dd.date_obj == exp else "wrong-value")
    else:
        got = o[1:]
        kind = "exception:" + o[1]
    cls["kind"] = kind
    return "bad", True, {"cls": cls, "expected": (exp, expp if exp is not None else "day"), "observed": got,
                         "detail": {"string": text, "settings": st}}


PH = {"2 days ago": ([(2, "day")], -1), "in 3 weeks": ([(3, "week")], 1), "yesterday": ([(1, "day")], -1),
      "tomorrow": ([(1, "day")], 1), "1 month ago": ([(1, "month")], -1), "in 1 year": ([(1, "year")], 1),
      "today": ([(0, "day")], -1), "in 2 hours": ([(2, "hour")], 1)}


def describe(sub, c):
    return {k: v for k, v in c.items()}
