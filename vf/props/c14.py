"""C14 — custom date_formats round-trip what the format expresses (E1)."""
from datetime import datetime, timedelta

from .. import api, clock, corpus, vocab
from ..refmodel import cal
from ..space import Listed, Product

ID = "C14"
LEVEL = "exploration"
TECHNIQUE = "bounded-exhaustive enumeration of (format from a combinatorial family, datetime, preferences, language) with the harness's own renderer; oracle = the fields the format expresses, completion rules, current year from a virtual clock"
RULE = ("formats = every date part x time part of the listed family; datetimes = core boundary set, every day 1900..2100 for 3 "
        "formats, all seconds of a day for time formats (thorough); localized month/weekday names for every language with "
        "single-meaning names; non-trivial = the library returned a datetime; distinct = distinct case tuples")
ASSUMPTIONS = [
    "the clock is virtual (vf.clock), proven on every run; process zone UTC",
    "a year-less format is read in the (virtual) current year, so 29 February / day 366 exist only when that year is a leap year; %y expresses the year through the fixed 1969-2068 pivot",
    "localized strings use %B/%A (translation yields full English names)",
]
CHUNK = 1500
# week-of-year + weekday formats (a complete date); rendered by the harness with its own week arithmetic
WEEK_FORMATS = ["%Y %W %a", "%Y %U %w", "%A, week %W of %Y", "%a %U %Y %H:%M"]
DATE_PARTS = ["%Y-%m-%d", "%d/%m/%Y", "%m/%d/%Y", "%d.%m.%y", "%d %B %Y", "%B %d, %Y", "%d %b %Y", "%A, %d %B %Y", "%a %d %b %Y",
              "%Y%m%d", "%y%m%d", "%Y-%j", "%B %Y", "%m/%Y", "%Y", "%d %B", "%b %d", "%B", "%b %y"]
TIME_PARTS = ["", "%H:%M", "%H:%M:%S", "%I:%M %p", "%H:%M:%S.%f", "%I:%M:%S %p"]
FORMATS = [d + (" " + t if t else "") for d in DATE_PARTS for t in TIME_PARTS if not (t and d in ("%Y", "%B", "%B %Y", "%m/%Y", "%b %y"))]
FORMATS += [t for t in TIME_PARTS if t]          # time-only formats: day, month and year all come from preferences / the clock
NOW = [datetime(2024, 3, 31, 9, 8, 7), datetime(2023, 2, 28, 23, 59, 59), datetime(2024, 2, 29, 12, 0, 0), datetime(2023, 4, 30, 0, 0, 1)]
# year-less formats x every day of the (virtual) current year, leap and non-leap
YEARLESS = ["%j", "%j %H:%M", "%A %j", "%H:%M %j", "%d %B", "%b %d %H:%M", "%d/%m", "%m-%d %I:%M %p", "%A, %d %B"]
NOW_YL = [datetime(2024, 3, 31, 9, 8, 7), datetime(2023, 2, 28, 23, 59, 59), datetime(2023, 12, 31, 0, 0, 0), datetime(2100, 6, 15, 12, 0, 0),
          datetime(2000, 1, 1, 0, 0, 0)]
# (PREFER_DAY_OF_MONTH, PREFER_MONTH_OF_YEAR): the first five keep their historical indices, the last four complete the 3 x 3 product
PREFS = [("current", "current"), ("first", "first"), ("last", "last"), ("first", "last"), ("last", "first"),
         ("last", "current"), ("first", "current"), ("current", "first"), ("current", "last")]


def render(fmt, dt, names=None):
    mon = (names or {}).get("month") or cal.MONTHS[dt.month - 1].capitalize()
    wd = (names or {}).get("weekday") or cal.WEEKDAYS[cal.weekday(dt.year, dt.month, dt.day)].capitalize()
    rep = {
        "%Y": "%04d" % dt.year, "%y": "%02d" % (dt.year % 100), "%m": "%02d" % dt.month, "%d": "%02d" % dt.day,
        "%B": mon, "%b": mon[:3], "%A": wd, "%a": wd[:3], "%H": "%02d" % dt.hour, "%M": "%02d" % dt.minute, "%S": "%02d" % dt.second,
        "%f": "%06d" % dt.microsecond, "%I": "%02d" % (dt.hour % 12 or 12), "%p": "AM" if dt.hour < 12 else "PM",
        "%j": "%03d" % (cal.ordinal(dt.year, dt.month, dt.day) - cal.ordinal(dt.year, 1, 1) + 1),
    }
    if "%W" in fmt or "%U" in fmt or "%w" in fmt:
        doy = cal.ordinal(dt.year, dt.month, dt.day) - cal.ordinal(dt.year, 1, 1)          # 0-based day of the year
        wd_mon0 = cal.weekday(dt.year, dt.month, dt.day)                                    # Monday = 0
        # C89: week 1 starts on the first Monday (%W) / Sunday (%U) of the year, the days before it are week 0
        rep["%W"] = "%02d" % ((doy + 7 - wd_mon0) // 7)
        rep["%U"] = "%02d" % ((doy + 7 - (wd_mon0 + 1) % 7) // 7)
        rep["%w"] = "%d" % ((wd_mon0 + 1) % 7)                                              # Sunday = 0
    out, i = "", 0
    while i < len(fmt):
        if fmt[i] == "%":
            out += rep[fmt[i:i + 2]]
            i += 2
        else:
            out += fmt[i]
            i += 1
    return out


def expected(fmt, dt, pd, pm, now):
    has = lambda *ds: any(d in fmt for d in ds)  # noqa: E731
    if has("%Y"):
        y = dt.year
    elif has("%y"):
        yy = dt.year % 100
        y = 2000 + yy if yy <= 68 else 1900 + yy
    else:
        y = now.year
    week = has("%W", "%U") and has("%a", "%A", "%w")
    have_month = has("%m", "%B", "%b", "%j") or week
    have_day = has("%d", "%j") or week
    m = dt.month if have_month else {"first": 1, "last": 12, "current": now.month}[pm]
    if have_day:
        d = dt.day
    else:
        last = cal.month_len(y, m)
        d = {"first": 1, "last": last, "current": min(now.day, last)}[pd]
    H = dt.hour if has("%H", "%I") else 0
    M = dt.minute if has("%M") else 0
    S = dt.second if has("%S") else 0
    us = dt.microsecond if has("%f") else 0
    if not cal.valid(y, m, d):
        return None, None
    per = "day" if have_day else ("month" if have_month else "year")
    return datetime(y, m, d, H, M, S, us), per


def _core():
    out = []
    for y in (1900, 1968, 1969, 1999, 2000, 2024, 2068, 2069, 2100):
        for (m, d) in ((1, 1), (1, 31), (2, 28), (3, 1), (4, 30), (7, 4), (12, 31), (10, 9)):
            for t in ((0, 0, 0, 0), (12, 0, 0, 5), (23, 59, 59, 999999), (1, 2, 3, 40000)):
                out.append(datetime(y, m, d, *t))
    return out


CORE = _core()
_L = None


def lang_names():
    global _L
    if _L is None:
        out = []
        for lang in vocab.languages():
            info = vocab.locale_info(lang)
            for mi, mk in enumerate(vocab.MONTH_KEYS):
                nm = corpus.single_meaning_names(info, [mk]).get(mk)
                # a name that is also an English month name is read by the format on the raw string first
                # (the statement's last sentence), so it says nothing about this language's vocabulary
                if nm and nm.lower() not in cal.MONTHS and nm.lower() not in cal.MONTHS_ABBR:
                    out.append((lang, mi + 1, nm))
        _L = out
    return _L


def spaces(tier, seed):
    T = tier == "thorough"
    sp = [
        Product("core", {"f": range(len(FORMATS)), "dt": range(len(CORE)), "pref": range(len(PREFS)), "now": [0, 1]}),
        Product("partial-formats-all-preferences", {"f": [i for i, f in enumerate(FORMATS) if not ("%d" in f or "%j" in f) or not any(x in f for x in ("%m", "%b", "%B", "%j"))],
                                                    "dt": [i for i, d in enumerate(CORE) if d.year in (1999, 2000, 2024) and (d.hour, d.microsecond) in ((0, 0), (23, 999999))],
                                                    "pref": range(len(PREFS)), "now": range(len(NOW))},
                note="formats that lack the day and/or the month x all nine preference pairs x current dates on a 31st, 28 and 29 February, a 30th"),
        Product("sweep-day", {"f": [FORMATS.index(x) for x in ("%Y-%m-%d", "%d.%m.%y", "%A, %d %B %Y %I:%M %p", "%Y-%j", "%y%m%d", "%m/%d/%Y %H:%M:%S.%f",
                                                               "%a %d %b %Y %I:%M:%S %p", "%B %d, %Y", "%Y%m%d %H:%M")],
                              "ord": range(cal.ordinal(1900, 1, 1), cal.ordinal(2100, 12, 31) + 1), "pref": [0], "now": [0]},
                note="every day 1900-01-01..2100-12-31"),
        Product("localized-month-names", {"ln": range(len(lang_names())), "lf": ["%d %B %Y", "%B %d, %Y %H:%M", "%B %Y", "%y %B %d", "%d-%B-%y %H:%M"], "d": [1, 15, 28],
                                          "pref": [1, 2], "now": [0]}),
        Product("localized-with-fraction", {"ln": range(len(lang_names())), "lf": ["%d %B %Y %H:%M:%S,%f", "%d.%m.%Y %B %H:%M:%S %f", "%B %d %Y %I:%M %p %f",
                                                                                 "%d %B %Y %H:%M:%S.%f", "%f %d %B %Y"],
                                            "d": [5], "us": [456789, 30000, 5], "pref": [1], "now": [0]},
                note="strings that match only after translation, with %f away from its usual place (and another '.digits' group in the string)"),
        Product("week-number-without-a-weekday", {"wo": ["%Y %W", "%H:%M %U %Y", "week %W, %Y"], "first": [None, "%Y %W %a", "%a %U %Y %H:%M"],
                                                  "ord": range(cal.ordinal(2016, 1, 1), cal.ordinal(2016, 12, 31), 5), "pref": range(len(PREFS)), "now": [0, 3]},
                note="a week number without a weekday states neither day nor month (strptime ignores it): both come from the preferences; in the same case a "
                     "week+weekday format is matched first (two-call history)"),
        Product("week-number-formats", {"wf": WEEK_FORMATS, "ord": range(cal.ordinal(2015, 1, 1), cal.ordinal(2025, 1, 1)), "pref": [0, 2], "now": [0, 3]},
                note="every day 2015..2024 written as week of the year + weekday"),
        Product("yearless-every-day", {"yf": YEARLESS, "doy": range(1, 367), "ynow": range(len(NOW_YL)), "pref": [0, 2]},
                note="the year comes from the (virtual) current year, leap or not; day-of-year formats included"),
        Listed("format-beats-heuristics", [{"s": s, "f": f, "exp": e} for s, f, e in [
            ("01-02-03", "%y-%m-%d", datetime(2001, 2, 3)), ("01-02-03", "%d-%m-%y", datetime(2003, 2, 1)),
            ("01-02-03", "%m-%d-%y", datetime(2003, 1, 2)), ("10/11/12", "%y/%m/%d", datetime(2010, 11, 12)),
            ("10/11/12", "%d/%m/%y", datetime(2012, 11, 10)), ("2012.03.04", "%Y.%d.%m", datetime(2012, 4, 3)),
            ("12 11 2010", "%d %m %Y", datetime(2010, 11, 12)), ("12 11 2010", "%m %d %Y", datetime(2010, 12, 11)),
            ("1000000000", "%H%M%S%d%m", None), ("20200229", "%Y%d%m", None), ("03/04/05 06:07", "%y/%d/%m %M:%H", datetime(2003, 5, 4, 7, 6)),
            ("May 2020", "%b %Y", datetime(2020, 5, 1)), ("yesterday", "%A", None)]]),
    ]
    if T:
        sp.append(Product("all-seconds", {"f": [FORMATS.index(x) for x in ("%Y-%m-%d %H:%M:%S", "%d %b %Y %I:%M:%S %p")], "sec": range(86400),
                                          "pref": [0], "now": [0]}))
        sp.append(Product("first-mid-last-days", {"f": range(len(FORMATS)), "ym": [(y, m) for y in range(1900, 2101) for m in range(1, 13)],
                                                  "dd": [1, 15, -1], "pref": [0, 2], "now": [0]}))
    return sp


def init_worker(tier, seed):
    clock.install()


def selfcheck():
    import dateparser
    clock.prove(dateparser.parse)


def run_case(sub, c):
    if sub == "format-beats-heuristics":
        if c["exp"] is None:
            return None
        o = api.outcome_of(api.gdd, c["s"], ["en"], None, None, {"PREFER_DAY_OF_MONTH": "first"}, [c["f"]])
        if o[0] == "ok" and o[1].date_obj == c["exp"]:
            return "ok", True, None
        return "bad", True, {"cls": {"form": sub, "format": c["f"]}, "expected": c["exp"],
                             "observed": o[1:] if o[0] == "exc" else o[1].date_obj, "detail": {"string": c["s"]}}
    now = NOW_YL[c["ynow"]] if sub == "yearless-every-day" else NOW[c["now"]]
    pd, pm = PREFS[c["pref"]]
    names = None
    langs = ["en"]
    if sub in ("localized-month-names", "localized-with-fraction"):
        lang, m, nm = lang_names()[c["ln"]]
        fmt = c["lf"]
        dt = datetime(2013, m, c["d"], 10, 45, 13, c.get("us", 0))
        names = {"month": nm}
        langs = [lang]
    elif sub == "week-number-without-a-weekday":
        fmt = c["wo"]
        dt = datetime(*cal.from_ordinal(c["ord"]), 13, 14, 15)
        if c["first"]:
            clock.freeze(now)
            try:
                api.outcome_of(api.gdd, render(c["first"], dt, None), ["en"], None, None, {"PREFER_DAY_OF_MONTH": pd, "PREFER_MONTH_OF_YEAR": pm}, [c["first"]])
            finally:
                clock.freeze(None)
    elif sub == "week-number-formats":
        fmt = c["wf"]
        dt = datetime(*cal.from_ordinal(c["ord"]), 13, 14, 15)
    elif sub == "yearless-every-day":
        fmt = c["yf"]
        if c["doy"] > (366 if cal.is_leap(now.year) else 365):
            return None
        dt = datetime(*cal.from_ordinal(cal.ordinal(now.year, 1, 1) + c["doy"] - 1), 13, 14, 15)
    else:
        fmt = FORMATS[c["f"]]
        if "ord" in c:
            dt = datetime(*cal.from_ordinal(c["ord"]), 13, 14, 15)
        elif "sec" in c:
            dt = datetime(2024, 2, 29) + timedelta(seconds=c["sec"])
        elif "ym" in c:
            y, m = c["ym"]
            dt = datetime(y, m, c["dd"] if c["dd"] > 0 else cal.month_len(y, m), 6, 7, 8)
        else:
            dt = CORE[c["dt"]]
    yearless = "%Y" not in fmt and "%y" not in fmt
    if yearless and (dt.month, dt.day) == (2, 29) and not cal.is_leap(now.year):
        return None      # the format cannot express this day in the current year
    s = render(fmt, dt, names)
    exp, per = expected(fmt, dt, pd, pm, now)
    if exp is None:
        return None
    st = {"PREFER_DAY_OF_MONTH": pd, "PREFER_MONTH_OF_YEAR": pm}
    clock.freeze(now)
    try:
        o = api.outcome_of(api.gdd, s, langs, None, None, st, [fmt])
    finally:
        clock.freeze(None)
    if o[0] == "ok":
        dd = o[1]
        time_only = not any(x in fmt for x in ("%d", "%j", "%m", "%b", "%B", "%Y", "%y"))
        if dd.date_obj == exp and (dd.period == per or time_only) and dd.date_obj.tzinfo is None:
            return "ok", True, None
        got = (dd.date_obj, dd.period)
        kind = "none" if dd.date_obj is None else ("wrong-period" if dd.date_obj == exp else "wrong-value")
    else:
        got = o[1:]
        kind = "exception:" + o[1]
    cls = {"form": sub, "format": fmt, "kind": kind}
    if sub in ("localized-month-names", "localized-with-fraction"):
        cls["language"] = langs[0]
        cls["name"] = names["month"]
    return "bad", True, {"cls": cls, "expected": (exp, per), "observed": got,
                         "detail": {"string": s, "format": fmt, "settings": st, "virtual_now": now, "languages": langs}}
