"""C10 — strictness only filters; strict results never borrow from the clock (E1, metamorphic)."""
from datetime import datetime

from .. import api, clock, corpus
from ..space import Product

ID = "C10"
LEVEL = "exploration"
TECHNIQUE = "exhaustive enumeration of (string from generated-partial-dates + harvested corpus) x parser menu x strictness mode, judged by relations between runs (strict vs unrestricted, two distant reference times)"
RULE = ("strings = every generated partial/complete date (all 31 part subsets x 3 layouts x every language with single-meaning "
        "names) and every harvested test-suite literal that parses; each x 3 parser menus x 8 strictness modes; one case = "
        "4 parses (unrestricted/restricted x 2 bases); non-trivial = the unrestricted parse gave a datetime; distinct = distinct "
        "(string, language, parser menu, mode)")
ASSUMPTIONS = [
    "the language is held fixed (languages=[L]) so that strictness cannot change which language is tried first (that composition law is C13's subject)",
    "relative-time is excluded from PARSERS: the statement is about absolute date strings",
]
CHUNK = 400
B1 = datetime(2001, 2, 3, 4, 5, 6)
B2 = datetime(2019, 11, 28, 17, 42, 0)
MODES = [("strict", None)] + [("require", ps) for ps in (["day"], ["month"], ["year"], ["day", "month"], ["day", "year"],
                                                         ["month", "year"], ["day", "month", "year"])] + [
    ("strict+require", ps) for ps in (["year"], ["month"], ["day"], ["month", "year"])]
PCS = {
    "absolute": (["absolute-time"], None),
    "default-minus-relative": (["timestamp", "custom-formats", "absolute-time"], None),
    "custom-formats": (["custom-formats", "absolute-time"], ["%d %B %Y", "%B %Y", "%Y-%m-%d", "%d %B", "%H:%M", "%d %Y", "%d %Y %H:%M", "%Y %W %a", "%Y %U %w", "%Y %W"]),
}
_S = None


def strings():
    global _S
    if _S is None:
        gen = corpus.generated()
        cor = corpus.corpus()
        # day numbers that do not exist in every month (the custom-format parser takes a missing month from the clock)
        extra = [("gen", "en", x, p) for x, p in (("31 2015", ("day", "year")), ("30 2015 10:45", ("day", "year", "time")),
                                                  ("29 2013", ("day", "year")), ("31 May 2015", ("day", "month", "year")),
                                                  ("31", ("day",)), ("30 10:45", ("day", "time")))]
        _S = ([("gen", g["lang"], g["string"], g["parts"]) for g in gen] + extra + [("corpus", loc, s, None) for s, loc in cor]
              + [(src, "en", x, None) for x in degenerate() for src in ("degenerate", "degenerate-dmy")])
    return _S


def degenerate():
    """Numeric dates in which a field is written as 0 / 00 / 0000 or is out of range: which parts such a string "states" is the
    library's business (no part labels), but whatever it decides must obey the relations (filter only, same under every base)."""
    out = set()
    for lay in ("{d}/{m}/{y}", "{d}.{m}.{y}", "{d}-{m}-{y}", "{d} {mon} {y}", "{mon} {d} {y}", "{mon} {d}, {y}", "{d} {m} {y}", "{y}-{m}-{d}",
                "{y}/{m}/{d}", "{d} {mon}", "{mon} {d}", "{mon} {y}", "{d}/{m}", "{m}/{y}", "{y}{m}{d}", "{d}{m}{y}"):
        for d in ("00", "0", "15", "32"):
            for m in ("00", "0", "11", "13"):
                for y in ("2015", "0000", "00", "15"):
                    if "{d}" not in lay and d != "15" or "{m}" not in lay and m != "11" or "{y}" not in lay and y != "2015":
                        continue
                    out.add(lay.format(d=d, m=m, y=y, mon="nov"))
    # week-number spellings: a year, a week and a weekday state neither a month nor a day of the month
    out.update(["2018 41 Fri", "2018 41 5", "2015 01 Mon", "Fri 41 2018", "2018-W41-5", "2018 41"])
    return sorted(out)


def spaces(tier, seed):
    S = strings()
    modes = range(len(MODES)) if tier == "thorough" else [0, 1, 2, 3, 7, 8, 9]
    special = [i for i, x in enumerate(S) if x[0] in ("degenerate", "degenerate-dmy") or (x[0] == "gen" and x[1] == "en")]
    return [Product("lenient-strict-lenient", {"s": special, "pc": list(PCS), "mode": [0, 1, 2, 3]},
                    note="three calls in one case: unrestricted, restricted, unrestricted again - what a restricted call refused or accepted must not change a later unrestricted result"),
            Product("strings-x-parsers-x-modes", {"s": range(len(S)), "pc": list(PCS), "mode": modes},
                    note="%d generated + %d corpus strings" % (sum(1 for x in S if x[0] == "gen"), sum(1 for x in S if x[0] == "corpus")))]


_memo = {}


def _parse(s, lang, pc, base, extra, gen=False):
    parsers, fmts = PCS[pc]
    st = {"RELATIVE_BASE": base, "PARSERS": parsers}
    if gen:
        # generated strings: "17" is written as the day; an explicit order keeps locales whose own order
        # is year-first from reading the lone two-digit number as a year
        st["DATE_ORDER"] = "DMY"
    st.update(extra)
    # the reference time is both RELATIVE_BASE and the (virtual) clock: the custom-format parser reads the clock
    clock.freeze(base)
    try:
        o = api.outcome_of(api.gdd, s, [lang], None, None, st, fmts, False, False)
    finally:
        clock.freeze(None)
    if o[0] == "exc":
        return ("exc", o[1], o[3])
    return o[1].date_obj


def init_worker(tier, seed):
    clock.install()


def selfcheck():
    import dateparser
    clock.prove(dateparser.parse)


def unrestricted(si, s, lang, pc, gen):
    k = (si, pc)
    if k not in _memo:
        if len(_memo) > 50:
            _memo.clear()
        _memo[k] = (_parse(s, lang, pc, B1, {}, gen), _parse(s, lang, pc, B2, {}, gen))
    return _memo[k]


def run_case(sub, c):
    src, lang, s, parts = strings()[c["s"]]
    kind, req = MODES[c["mode"]]
    extra = {"STRICT_PARSING": True} if kind == "strict" else {"REQUIRE_PARTS": list(req)}
    if kind == "strict+require":
        extra["STRICT_PARSING"] = True
    required = ("day", "month", "year") if kind.startswith("strict") else tuple(req)
    gen = src in ("gen", "degenerate-dmy")
    if sub == "lenient-strict-lenient":
        a1 = _parse(s, lang, c["pc"], B1, {}, gen)
        rr = _parse(s, lang, c["pc"], B1, extra, gen)
        a2 = _parse(s, lang, c["pc"], B1, {}, gen)
        if a1 == a2:
            return "same", isinstance(a1, datetime), None
        return "bad", True, {"cls": {"form": src, "pc": c["pc"], "mode": kind, "problem": "an unrestricted result changed after a restricted call"},
                             "expected": a1, "observed": a2, "detail": {"string": s, "language": lang, "restricted_call": extra, "restricted_result": rr, "parsers": PCS[c["pc"]]}}
    u1, u2 = unrestricted(c["s"], s, lang, c["pc"], gen)
    r1 = _parse(s, lang, c["pc"], B1, extra, gen)
    r2 = _parse(s, lang, c["pc"], B2, extra, gen)
    prob = None
    for x in (u1, u2, r1, r2):
        if isinstance(x, tuple):
            prob = "exception " + x[1]
    if prob is None:
        if r1 is not None and r1 != u1 or r2 is not None and r2 != u2:
            prob = "strictness changed a value"
        elif u1 is not None and u2 is not None and (r1 is None) != (r2 is None):
            prob = "filter decision depends on the reference time"
        elif r1 is not None:
            if kind.startswith("strict") and r1 != r2:
                prob = "strict result depends on the reference time"
            elif kind == "require" and any(getattr(r1, p) != getattr(r2, p) for p in required):
                prob = "a required part depends on the reference time"
            elif parts is not None and not set(required) <= set(parts):
                prob = "result although a required part is absent from the string"
    nontriv = isinstance(u1, datetime)
    if prob is None:
        if r1 is None:
            return ("filtered" if nontriv else "unparsed"), nontriv, None
        return "kept", True, None
    cls = {"form": src, "pc": c["pc"], "mode": kind, "problem": prob}
    if parts is not None:
        cls["parts"] = "+".join(parts)
    else:
        cls["lang"] = lang
    return "bad", True, {"cls": cls, "expected": "restricted in {None, unrestricted}; identical under both reference times",
                         "observed": {"unrestricted": (u1, u2), "restricted": (r1, r2)},
                         "detail": {"string": s, "language": lang, "settings": extra, "parsers": PCS[c["pc"]]}}


def describe(sub, c):
    src, lang, s, parts = strings()[c["s"]]
    return {"string": s, "language": lang, "parts": parts, "mode": MODES[c["mode"]]}
