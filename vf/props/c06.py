"""C06 — every locale's relative phrases mean what their English canon means (E1 over the vocabulary)."""
import re
from datetime import datetime

from .. import api, vocab
from ..space import Product

ID = "C06"
LEVEL = "exploration"
TECHNIQUE = "exhaustive walk over every relative-type phrase and relative-type-regex pattern of every locale object (patterns instantiated by a complete expander), differential against the English canonical expression under the same reference time"
RULE = ("cases = every fixed relative phrase and every counted pattern (all alternatives of the pattern expanded; number group "
        "instantiated with each listed count) of each of the 504 locale objects with a single meaning in that locale, x NORMALIZE "
        "on/off x reference times; non-trivial = the English canon parsed to a datetime; distinct = distinct (locale, phrase, mode, base)")
ASSUMPTIONS = [
    "single meaning: a fixed phrase is listed under exactly one meaning-bearing key of the locale; an instantiated pattern full-matches the patterns of exactly one relative-type-regex key of the locale and is not itself a fixed phrase of another key",
    "English's reading of its own canonical expressions is pinned by C04",
    "patterns using regex constructs outside {literal text, number group, x?, \\s*} are counted under skipped_patterns, never guessed",
]
CHUNK = 800
LOCS = vocab.all_locale_objects()
BASES = [datetime(2021, 6, 15, 10, 20, 30), datetime(2022, 1, 31, 23, 59, 59), datetime(2024, 2, 29, 0, 0, 1)]
NUM = r"(\d+[.,]?\d*)"
NUM2 = r"(\d+)"
SKIPPED = []


def expand(pat):
    """All concrete templates of a pattern ('{n}' marks the number), or None if it uses unsupported constructs."""
    outs = [""]
    i = 0
    admits_decimal = False
    while i < len(pat):
        if pat.startswith(NUM, i):
            outs = [o + "{n}" for o in outs]
            admits_decimal = True
            i += len(NUM)
            continue
        if pat.startswith(NUM2, i):
            outs = [o + "{n}" for o in outs]
            i += len(NUM2)
            continue
        if pat.startswith(r"\s*", i):
            outs = [o + x for o in outs for x in ("", " ")]
            i += 3
            continue
        ch = pat[i]
        if ch == "\\":
            if i + 1 < len(pat) and pat[i + 1] in ".-'()":
                ch = pat[i + 1]
                i += 1
            else:
                return None, False
        elif ch in "()[]{}*+|^$.":
            return None, False
        if i + 1 < len(pat) and pat[i + 1] == "?":
            outs = [o + x for o in outs for x in (ch, "")]
            i += 2
            continue
        if ch == "?":
            return None, False
        outs = [o + ch for o in outs]
        i += 1
    return outs, admits_decimal


_ITEMS = None


def items():
    """[(loc index, kind, canon key, template, admits_decimal)]"""
    global _ITEMS
    if _ITEMS is None:
        out = []
        for li, (lang, loc) in enumerate(LOCS):
            info = vocab.locale_info(lang, loc)
            lst = vocab.listings(info, normalize=False)
            for key, vals in (info.get("relative-type") or {}).items():
                for ph in vals:
                    if lst.get(ph.lower()) != {"rel:" + key}:
                        continue
                    out.append((li, "phrase", key, ph, False))
            rx = info.get("relative-type-regex") or {}
            owner = {}
            for key, pats in rx.items():
                for p in pats:
                    owner.setdefault(p, set()).add(key)
            for key, pats in rx.items():
                for p in pats:
                    if owner[p] != {key}:
                        continue
                    tpls, dec = expand(p)
                    if tpls is None:
                        SKIPPED.append((lang, p))
                        continue
                    for t in tpls:
                        out.append((li, "pattern", key, t, dec))
        _ITEMS = out
    return _ITEMS


_RX = {}


def keys_matching(li, text, norm):
    """Relative-type-regex keys of the locale whose patterns full-match `text` (data as specification)."""
    k = (li, norm)
    if k not in _RX:
        lang, loc = LOCS[li]
        info = vocab.locale_info(lang, loc)
        comp = []
        for key, pats in (info.get("relative-type-regex") or {}).items():
            for p in pats:
                if norm:
                    p = vocab.strip_accents(p)
                try:
                    comp.append((key, re.compile("^(?:%s)$" % p, re.I | re.U)))
                except re.error:
                    pass
        fixed = vocab.listings(info, normalize=norm)
        _RX[k] = (comp, fixed)
    comp, fixed = _RX[k]
    t = vocab.strip_accents(text) if norm else text
    keys = {key for key, r in comp if r.match(t)}
    other = fixed.get(t.lower(), set())
    return keys, other


def spaces(tier, seed):
    T = tier == "thorough"
    it = items()
    ph = [i for i, x in enumerate(it) if x[1] == "phrase"]
    pt = [i for i, x in enumerate(it) if x[1] == "pattern"]
    counts = ["0", "1", "2", "3", "11", "45", "120", "1.5", "2,5", "5.", "7,", "007", "100000", "3.14159"] if T else ["0", "1", "2", "45", "1.5", "2,5", "5.", "7,", "007"]
    return [
        Product("fixed-phrases", {"i": ph, "norm": [True, False], "base": range(len(BASES)) if T else [0, 1]}),
        Product("counted-patterns", {"i": pt, "n": counts, "norm": [True, False], "base": range(len(BASES)) if T else [1]}),
    ]


def run_case(sub, c):
    li, kind, key, tpl, dec = items()[c["i"]]
    lang, loc = LOCS[li]
    norm = c["norm"]
    base = BASES[c["base"]]
    if kind == "phrase":
        text, canon = tpl, key
    else:
        n = c["n"]
        if not dec and not n.isdigit():
            return None
        text = tpl.replace("{n}", n)
        canon = key.replace("\\1", n)
        keys, other = keys_matching(li, text, norm)
        if keys != {key} or other:
            return None  # not a single meaning in this locale/mode
    st = {"RELATIVE_BASE": base, "NORMALIZE": norm}
    langs, locs = ([lang], None) if loc is None else (None, [loc])
    e = api.outcome_of(api.gdd, canon, ["en"], None, None, st)
    if e[0] != "ok":
        return None
    exp = e[1].date_obj
    o = api.outcome_of(api.gdd, text, langs, locs, None, st)
    if o[0] == "ok":
        got = o[1].date_obj
        if got == exp:
            return ("ok" if exp is not None else "both-none"), exp is not None, None
        kind2 = "none" if got is None else "wrong-value"
    else:
        got = o[1:]
        kind2 = "exception:" + o[1]
    ck = "fixed" if kind == "phrase" else ("integer" if c["n"].isdigit() else (
        ("trailing-" if c["n"][-1] in ".," else "decimal-") + ("comma" if "," in c["n"] else "point")))
    return "bad", True, {"cls": {"language": lang, "key": key, "template": tpl, "kind": kind2, "count": ck},
                         "expected": exp, "observed": got,
                         "detail": {"string": text, "canon": canon, "locale": loc or lang, "settings": st}}


def describe(sub, c):
    li, kind, key, tpl, dec = items()[c["i"]]
    return {"locale": LOCS[li][1] or LOCS[li][0], "key": key, "template": tpl}
