"""C05 — every locale's month and weekday names resolve to their meaning (E1 over the vocabulary)."""
import json
import os
import subprocess
import sys
from datetime import datetime, timedelta

from .. import api, vocab
from ..refmodel import cal
from ..space import Listed, Product

ID = "C05"
LEVEL = "exploration"
TECHNIQUE = "exhaustive walk over the shipped vocabulary (every month/weekday name of every language and regional locale, NORMALIZE on/off) with the data files as specification of meaning; plus, per language with regional locales and per load order, a fresh interpreter that loads all its locale objects in that order before checking every name (histories of locale loading)"
RULE = ("cases = every string listed under a month or weekday key of each of the 504 locale objects (language data overlaid "
        "with locale_specific by the harness's own merge) that has a single meaning in that locale and mode, x NORMALIZE on/off x "
        "day numbers x years (months) / reference dates on the 8th..24th (weekdays); non-trivial = the library returned a datetime; "
        "distinct = distinct (locale, name, mode, day/base)")
ASSUMPTIONS = [
    "single meaning = the lower-cased (accent-stripped when NORMALIZE) string is listed under exactly one key among months, weekdays, units, ago/in/am/pm and relative-type phrases of that locale, and equals no listed name of another meaning after the locale's simplification rewriting is ignored; skip/pertain listings and simplification rules do not disqualify",
    "the data files are the specification of meaning (their derivation from CLDR/YAML is C16's subject)",
]
CHUNK = 600
LOCS = vocab.all_locale_objects()
_N = None


def names():
    """[(loc index, key, name, normalize)] for single-meaning month/weekday names."""
    global _N
    if _N is None:
        out = []
        for li, (lang, loc) in enumerate(LOCS):
            info = vocab.locale_info(lang, loc)
            lst = vocab.listings(info, normalize=False)
            for norm in (True, False):
                seen = set()
                for key in vocab.MONTH_KEYS + vocab.WEEKDAY_KEYS:
                    for name in info.get(key) or []:
                        low = name.lower()
                        if not low.strip() or (key, low) in seen:
                            continue
                        seen.add((key, low))
                        # single meaning = the spelling as listed stands under exactly one key of this locale.  Spellings that
                        # only collide after accent stripping are NOT excluded: each is listed with one meaning
                        if lst.get(low) != {key}:
                            continue
                        out.append((li, key, name, norm))
        _N = out
    return _N


ORDERS = ["base-then-regional-sorted", "regional-reversed-then-base", "incremental-sorted"]
FAM_BASE = datetime(2019, 5, 16, 0, 0)


def family(lang):
    return [i for i, (l, _) in enumerate(LOCS) if l == lang]


def family_run(lang, order):
    """Runs in a fresh interpreter: load the locale objects of one language in the given order (one parse each), then check
    every single-meaning month/weekday name of every one of them ("incremental": check each locale's names right after loading it).
    Returns {names() index: [kind, observed]} for the entries that do not resolve to their meaning."""
    fam = family(lang)
    if order == "regional-reversed-then-base":
        seq = sorted(fam, key=lambda i: LOCS[i][1] or "", reverse=True)     # base (None) last
    else:
        seq = sorted(fam, key=lambda i: LOCS[i][1] or "")                   # base first, regional sorted
    by_loc = {}
    for n, x in enumerate(names()):
        if LOCS[x[0]][0] == lang:
            by_loc.setdefault(x[0], []).append(n)
    bad = {}

    def check(li):
        for n in by_loc.get(li, []):
            _, key, name, norm = names()[n]
            r = run_case("month-names" if key in vocab.MONTH_KEYS else "weekday-names", {"n": n, "d": 15, "y": 2015, "base": FAM_BASE})
            if r[2] is not None:
                bad[n] = [r[2]["cls"]["kind"], repr(r[2]["observed"])]

    def load(li):
        l, loc = LOCS[li]
        api.outcome_of(api.gdd, "2015-01-15", [l] if loc is None else None, None if loc is None else [loc], None, None)

    if order == "incremental-sorted":
        for li in seq:
            load(li)
            check(li)
    else:
        for li in seq:
            load(li)
        for li in seq:
            check(li)
    return bad


_fam_memo = {}


def family_result(lang, order):
    k = (lang, order)
    if k not in _fam_memo:
        if len(_fam_memo) > 8:
            _fam_memo.clear()
        code = ("import sys, json\nfrom vf.props import c05\n"
                "print('RESULT ' + json.dumps(c05.family_run(sys.argv[1], sys.argv[2])))\n")
        p = subprocess.run([sys.executable, "-c", code, lang, order], capture_output=True, text=True, timeout=1800,
                           env=dict(os.environ))
        line = next((ln for ln in p.stdout.splitlines() if ln.startswith("RESULT ")), None)
        if p.returncode != 0 or line is None:
            from ..target import InfraError
            raise InfraError("family child for %s/%s failed: %s" % (lang, order, p.stderr[-1500:]))
        _fam_memo[k] = {int(n): v for n, v in json.loads(line[7:]).items()}
    return _fam_memo[k]


def spaces(tier, seed):
    T = tier == "thorough"
    N = names()
    months = [i for i, x in enumerate(N) if x[1] in vocab.MONTH_KEYS]
    wds = [i for i, x in enumerate(N) if x[1] in vocab.WEEKDAY_KEYS]
    multi = {l for l, loc in LOCS if loc is not None}
    fam_names = [i for i, x in enumerate(N) if LOCS[x[0]][0] in multi]
    return [
        Product("after-the-unaccented-spelling", {"n": [i for i, x in enumerate(N) if x[3] and vocab.strip_accents(x[2]) != x[2]], "d": [15], "y": [2015], "mode": [False, True]},
                note="two-call history inside the case: the name typed without its accents is parsed first under the other NORMALIZE value (whatever that gives), "
                     "then the listed spelling must resolve"),
        Product("after-a-call-that-skips-the-name", {"n": months + wds, "d": [15], "y": [2015]},
                note="two-call history inside the case: the same string is parsed first with SKIP_TOKENS naming the word itself (whatever that gives), then the name "
                     "must resolve under settings without that entry - with a RELATIVE_BASE no earlier call used, so that no per-settings cache filled earlier in the worker masks what the first call left behind"),
        Product("after-loading-sibling-locales", {"order": ORDERS, "n": fam_names},
                note="fresh interpreter per (language, load order): all locale objects of the language are loaded in that order, then every name of "
                     "every one of them is checked - a locale must understand its names whatever sibling locales were used before"),
        Product("month-names", {"n": months, "d": [1, 15, 28] if not T else range(1, 29), "y": [2015] if not T else [1999, 2015, 2024]},
                note="'D <name> YYYY' for every single-meaning month name of every locale object"),
        Product("weekday-names", {"n": wds, "base": [datetime(2019, 5, 8, 10, 0), datetime(2019, 5, 16, 0, 0), datetime(2019, 5, 24, 23, 59, 59)]
                                  if not T else [datetime(2019, 5, d, 12, 0) for d in range(8, 25)]},
                note="weekday name alone, reference date on the 8th..24th"),
    ]


_fresh_key = 0


def run_case(sub, c):
    li, key, name, norm = names()[c["n"]]
    lang, loc = LOCS[li]
    if sub == "after-the-unaccented-spelling":
        m_ = key in vocab.MONTH_KEYS
        plain = vocab.strip_accents(name)
        first = ("%d %s %d" % (c["d"], plain, c["y"])) if m_ else plain
        langs_, locs_ = ([lang], None) if loc is None else (None, [loc])
        api.outcome_of(api.gdd, first, langs_, locs_, None, {"NORMALIZE": c["mode"], "RELATIVE_BASE": FAM_BASE})
        r = run_case("month-names" if m_ else "weekday-names", {"n": c["n"], "d": c["d"], "y": c["y"], "base": FAM_BASE})
        if r[2] is not None:
            r[2]["detail"]["first_call"] = {"string": first, "NORMALIZE": c["mode"]}
        return r
    if sub == "after-a-call-that-skips-the-name":
        global _fresh_key
        _fresh_key = (_fresh_key + 1) % 999983
        m_ = key in vocab.MONTH_KEYS
        first = ("%d %s %d" % (c["d"], name, c["y"])) if m_ else name
        langs_, locs_ = ([lang], None) if loc is None else (None, [loc])
        skip = sorted({name.lower(), vocab.strip_accents(name.lower())})
        api.outcome_of(api.gdd, first, langs_, locs_, None, {"NORMALIZE": norm, "SKIP_TOKENS": skip, "RELATIVE_BASE": FAM_BASE})
        r = run_case("month-names" if m_ else "weekday-names", {"n": c["n"], "d": c["d"], "y": c["y"], "base": FAM_BASE.replace(microsecond=_fresh_key), "fresh": _fresh_key})
        if r[2] is not None:
            r[2]["cls"]["after_a_call_that_skips_the_name"] = True
            r[2]["detail"]["first_call"] = {"string": first, "SKIP_TOKENS": skip}
        return r
    if sub == "after-loading-sibling-locales":
        bad = family_result(lang, c["order"]).get(c["n"])
        if bad is None:
            return "ok", True, None
        return "bad", True, {"cls": {"language": lang, "key": key, "name": name, "normalize": norm, "kind": bad[0]},
                             "expected": "the name's own meaning", "observed": bad[1],
                             "detail": {"locale": loc or lang, "load_order": c["order"],
                                        "note": "python -c 'from vf.props import c05; print(c05.family_run(%r, %r))'" % (lang, c["order"])}}
    st = {"NORMALIZE": norm}
    langs, locs = ([lang], None) if loc is None else (None, [loc])
    if "fresh" in c:
        st["RELATIVE_BASE"] = FAM_BASE.replace(microsecond=c["fresh"])
    if sub == "month-names":
        m = vocab.MONTH_KEYS.index(key) + 1
        s = "%d %s %d" % (c["d"], name, c["y"])
        exp = datetime(c["y"], m, c["d"])
    else:
        b = c["base"]
        wd = vocab.WEEKDAY_KEYS.index(key)
        delta = (cal.weekday(b.year, b.month, b.day) - wd) % 7
        exp = datetime(b.year, b.month, b.day) - timedelta(days=delta)
        s = name
        st["RELATIVE_BASE"] = b
    o = api.outcome_of(api.gdd, s, langs, locs, None, st)
    if o[0] == "ok":
        dd = o[1]
        if dd.date_obj == exp and dd.period == "day":
            return "ok", True, None
        got = (dd.date_obj, dd.period)
        kind = "none" if dd.date_obj is None else ("wrong-period" if dd.date_obj == exp else "wrong-value")
    else:
        got = o[1:]
        kind = "exception:" + o[1]
    return "bad", True, {"cls": {"language": lang, "key": key, "name": name, "normalize": norm, "kind": kind},
                         "expected": (exp, "day"), "observed": got,
                         "detail": {"string": s, "locale": loc or lang, "settings": st}}


def describe(sub, c):
    li, key, name, norm = names()[c["n"]]
    return {"locale": LOCS[li][1] or LOCS[li][0], "key": key, "name": name, "normalize": norm}
