"""C05 — every locale's month and weekday names resolve to their meaning (E1 over the vocabulary)."""
from datetime import datetime, timedelta

from .. import api, vocab
from ..refmodel import cal
from ..space import Listed, Product

ID = "C05"
LEVEL = "exploration"
TECHNIQUE = "exhaustive walk over the shipped vocabulary (every month/weekday name of every language and regional locale, NORMALIZE on/off) with the data files as specification of meaning"
RULE = ("cases = every string listed under a month or weekday key of each of the 504 locale objects (language data overlaid "
        "with locale_specific by the harness's own merge) that has a single meaning in that locale and mode, x NORMALIZE on/off x "
        "day numbers x years (months) / reference dates on the 8th..24th (weekdays); non-trivial = the library returned a datetime; "
        "distinct = distinct (locale, name, mode, day/base)")
ASSUMPTIONS = [
    "single meaning = the lower-cased (accent-stripped when NORMALIZE) string is listed under exactly one key among months, weekdays, units, ago/in/am/pm and relative-type phrases of that locale, and equals no listed name of another meaning after the locale's simplification rewriting is ignored; skip/pertain listings and simplification rules do not disqualify",
    "the data files are the specification of meaning (their derivation from CLDR/YAML is C16's subject)",
]
CHUNK = 600
LOCS = vocab.all_locale_objects()
_N = None


def names():
    """[(loc index, key, name, normalize)] for single-meaning month/weekday names."""
    global _N
    if _N is None:
        out = []
        for li, (lang, loc) in enumerate(LOCS):
            info = vocab.locale_info(lang, loc)
            lst = vocab.listings(info, normalize=False)
            for norm in (True, False):
                seen = set()
                for key in vocab.MONTH_KEYS + vocab.WEEKDAY_KEYS:
                    for name in info.get(key) or []:
                        low = name.lower()
                        if not low.strip() or (key, low) in seen:
                            continue
                        seen.add((key, low))
                        # single meaning = the spelling as listed stands under exactly one key of this locale.  Spellings that
                        # only collide after accent stripping are NOT excluded: each is listed with one meaning
                        if lst.get(low) != {key}:
                            continue
                        out.append((li, key, name, norm))
        _N = out
    return _N


def spaces(tier, seed):
    T = tier == "thorough"
    N = names()
    months = [i for i, x in enumerate(N) if x[1] in vocab.MONTH_KEYS]
    wds = [i for i, x in enumerate(N) if x[1] in vocab.WEEKDAY_KEYS]
    return [
        Product("month-names", {"n": months, "d": [1, 15, 28] if not T else range(1, 29), "y": [2015] if not T else [1999, 2015, 2024]},
                note="'D <name> YYYY' for every single-meaning month name of every locale object"),
        Product("weekday-names", {"n": wds, "base": [datetime(2019, 5, 8, 10, 0), datetime(2019, 5, 16, 0, 0), datetime(2019, 5, 24, 23, 59, 59)]
                                  if not T else [datetime(2019, 5, d, 12, 0) for d in range(8, 25)]},
                note="weekday name alone, reference date on the 8th..24th"),
    ]


def run_case(sub, c):
    li, key, name, norm = names()[c["n"]]
    lang, loc = LOCS[li]
    st = {"NORMALIZE": norm}
    langs, locs = ([lang], None) if loc is None else (None, [loc])
    if sub == "month-names":
        m = vocab.MONTH_KEYS.index(key) + 1
        s = "%d %s %d" % (c["d"], name, c["y"])
        exp = datetime(c["y"], m, c["d"])
    else:
        b = c["base"]
        wd = vocab.WEEKDAY_KEYS.index(key)
        delta = (cal.weekday(b.year, b.month, b.day) - wd) % 7
        exp = datetime(b.year, b.month, b.day) - timedelta(days=delta)
        s = name
        st["RELATIVE_BASE"] = b
    o = api.outcome_of(api.gdd, s, langs, locs, None, st)
    if o[0] == "ok":
        dd = o[1]
        if dd.date_obj == exp and dd.period == "day":
            return "ok", True, None
        got = (dd.date_obj, dd.period)
        kind = "none" if dd.date_obj is None else ("wrong-period" if dd.date_obj == exp else "wrong-value")
    else:
        got = o[1:]
        kind = "exception:" + o[1]
    return "bad", True, {"cls": {"language": lang, "key": key, "name": name, "normalize": norm, "kind": kind},
                         "expected": (exp, "day"), "observed": got,
                         "detail": {"string": s, "locale": loc or lang, "settings": st}}


def describe(sub, c):
    li, key, name, norm = names()[c["n"]]
    return {"locale": LOCS[li][1] or LOCS[li][0], "key": key, "name": name, "normalize": norm}
