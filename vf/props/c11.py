"""C11 — a timezone written in the string yields exactly that offset (E1 over the timezone table)."""
import copy
import pickle
from datetime import datetime, timedelta

from .. import api
from ..space import Product

ID = "C11"
LEVEL = "exploration"
TECHNIQUE = "exhaustive walk over the complete timezone table (every offset x spelling, every abbreviation x case) x bodies x positions, table offsets as oracle"
RULE = ("cases = every row of timezones.timezone_info_list (read as specification) x spellings x bodies x positions x "
        "language mode; non-trivial = the library returned an aware datetime; distinct = distinct case tuples")
ASSUMPTIONS = [
    "dateparser/timezones.py is the specification of offsets; the behaviour under test comes from the shipped cache file",
    "'before a parenthesised abbreviation' applies to the UTC/GMT+HHMM spellings (the JavaScript Date form) and, for abbreviations, means the abbreviation itself in parentheses",
]
CHUNK = 800

BODIES = [
    ("2014-05-05 10:00", datetime(2014, 5, 5, 10, 0)),
    ("May 5, 2014 10:30:45", datetime(2014, 5, 5, 10, 30, 45)),
    ("5 May 2014 23:59", datetime(2014, 5, 5, 23, 59)),
    ("12/31/1999 00:00:01", datetime(1999, 12, 31, 0, 0, 1)),
    ("Fri Sep 23 2016 10:34:51", datetime(2016, 9, 23, 10, 34, 51)),
    ("2000-02-29T12:00:00", datetime(2000, 2, 29, 12, 0, 0)),
]
_T = None


def table():
    global _T
    if _T is None:
        from dateparser.timezones import timezone_info_list
        offs = []
        for name, sec in timezone_info_list[0]["timezones"]:
            offs.append(sec)
        abbr = {}
        order = []
        for name, sec in timezone_info_list[1]["timezones"]:
            if name not in abbr:
                order.append(name)
            abbr.setdefault(name, []).append(sec)
        _T = (sorted(set(offs)), order, abbr)
    return _T


def spellings(sec):
    sign = "-" if sec < 0 else "+"
    a = abs(sec)
    hh, mm = a // 3600, a % 3600 // 60
    out = {"+HHMM": "%s%02d%02d" % (sign, hh, mm), "+HH:MM": "%s%02d:%02d" % (sign, hh, mm),
           "UTC+HH:MM": "UTC%s%02d:%02d" % (sign, hh, mm), "GMT+HH:MM": "GMT%s%02d:%02d" % (sign, hh, mm),
           "UTC+HHMM": "UTC%s%02d%02d" % (sign, hh, mm), "GMT+HHMM": "GMT%s%02d%02d" % (sign, hh, mm),
           "UTC+H:MM": "UTC%s%d:%02d" % (sign, hh, mm), "GMT+H:MM": "GMT%s%d:%02d" % (sign, hh, mm)}
    if mm == 0:
        out.update({"UTC+H": "UTC%s%d" % (sign, hh), "UTC+HH": "UTC%s%02d" % (sign, hh),
                    "GMT+H": "GMT%s%d" % (sign, hh), "GMT+HH": "GMT%s%02d" % (sign, hh)})
    return out


FIRST = ["UTC", "GMT", "CST", "EST", "IST", "Z", "+0530", "UTC+05:30", "GMT-9", "-0330", "(PST)", ""]
SPELL = ["+HHMM", "+HH:MM", "UTC+H", "UTC+HH", "UTC+H:MM", "UTC+HH:MM", "UTC+HHMM", "GMT+H", "GMT+HH", "GMT+H:MM", "GMT+HH:MM", "GMT+HHMM"]
PAREN_OK = ("UTC+HHMM", "GMT+HHMM", "UTC+HH:MM", "GMT+HH:MM")


def spaces(tier, seed):
    offs, order, abbr = table()
    sp = [
        Product("offsets", {"off": offs, "spell": SPELL, "case": ["as-is", "lower"], "body": range(len(BODIES)),
                            "pos": ["end", "attached", "before-paren"], "lang": ["en", "auto"]}),
        Product("abbreviations", {"ab": order, "case": ["as-is", "lower"], "body": range(len(BODIES)),
                                  "pos": ["end", "paren"], "lang": ["en", "auto"]}),
        Product("no-zone", {"body": range(len(BODIES)), "lang": ["en", "auto"], "suffix": ["", " ", ":"]}),
        # two-call histories inside the case: a string with another zone (or none) is parsed first
        Product("offsets-after-another-zone", {"first": FIRST, "off": offs, "spell": SPELL, "case": ["as-is"], "body": [0], "pos": ["end"], "lang": ["en"]}),
        Product("abbreviations-after-another-zone", {"first": FIRST, "ab": order, "case": ["as-is"], "body": [0], "pos": ["end"], "lang": ["en"]}),
        Product("no-zone-lookalikes", {"d": ["15 March 2015", "2015-03-15", "March 15, 2015", "15/03/2015"], "sep": [" - ", " \u2013 ", " \u2014 ", ", ", " @ ", " at ", " -- "],
                                       "off": offs + [37800, 47700, 1800], "lang": ["en", "auto"]},
                note="no zone in the string: a separator (a dash with blanks around it ...) followed by a clock time whose digits equal a supported UTC offset"),
        Product("abbreviations-after-a-call-that-skips-them", {"ab": order, "case": ["as-is", "lower"], "body": [0, 1], "pos": ["end"], "lang": ["en"], "skipfirst": [1]},
                note="two calls in one case: first the same string with SKIP_TOKENS naming the abbreviation (lower case) - that call may well ignore the zone -, then the "
                     "string under settings equal to the defaults except for a RELATIVE_BASE no earlier call used (a settings key the library has not seen, so "
                     "no per-settings cache filled earlier in the worker can mask what the first call left behind)"),
        Product("no-zone-after-a-zone", {"first": FIRST, "body": range(len(BODIES)), "lang": ["en"], "suffix": [""]}),
    ]
    if tier == "thorough":
        sp.append(Product("abbreviations-awareness-settings", {"ab": order, "case": ["as-is"], "body": [0, 1], "pos": ["end"],
                                                               "lang": ["en"], "rata": [True]}))
    return sp


_fresh_key = 0


def run_case(sub, c):
    offs, order, abbr = table()
    body, wall = BODIES[c["body"]] if "body" in c else (None, None)
    st = None
    if "skipfirst" in c:
        global _fresh_key
        _fresh_key += 1
        api.outcome_of(api.gdd, body + " " + c["ab"], ["en"], None, None, {"SKIP_TOKENS": ["t", c["ab"].lower()]})
        st = {"RELATIVE_BASE": datetime(2001, 1, 1) + timedelta(minutes=_fresh_key)}
        sub = "abbreviations"
    if "first" in c:
        api.outcome_of(api.gdd, ("1 March 2011 09:15 " + c["first"]).strip(), ["en"])
        sub = sub.split("-after-")[0]
    if sub == "no-zone-lookalikes":
        a = abs(c["off"]) % 86400
        hh, mm = a // 3600, a % 3600 // 60
        s = "%s%s%02d:%02d" % (c["d"], c["sep"], hh, mm)
        wall = datetime(2015, 3, 15, hh, mm)
        o = api.outcome_of(api.gdd, s, ["en"] if c["lang"] == "en" else None, None, None, {"DATE_ORDER": "DMY"})
        if o[0] == "ok" and o[1].date_obj == wall and o[1].date_obj.tzinfo is None:
            return "naive-ok", True, None
        if o[0] == "ok" and o[1].date_obj is None:
            return "not-parsed", False, None        # the statement is about results: an unparsed string yields nothing to be naive or aware
        return "bad", True, {"cls": {"form": "no-zone-lookalike", "sep": c["sep"], "kind": "aware-or-wrong"}, "expected": wall,
                             "observed": o[1:] if o[0] == "exc" else (o[1].date_obj, o[1].period), "detail": {"string": s}}
    if sub == "no-zone":
        s = body + c["suffix"]
        o = api.outcome_of(api.gdd, s, ["en"] if c["lang"] == "en" else None)
        if o[0] == "ok" and o[1].date_obj == wall and o[1].date_obj.tzinfo is None:
            return "naive-ok", True, None
        return "bad", True, {"cls": {"form": "no-zone", "kind": "not-naive-or-wrong"}, "expected": wall,
                             "observed": o[1:] if o[0] == "exc" else (o[1].date_obj, o[1].period), "detail": {"string": s}}
    if sub == "offsets":
        sp_ = spellings(c["off"])
        if c["spell"] not in sp_:
            return None
        tz = sp_[c["spell"]]
        allowed = {c["off"]}
        if c["pos"] == "before-paren":
            if c["spell"] not in PAREN_OK:
                return None
            s = "%s %s (%s)" % (body, tz, "CST")
        elif c["pos"] == "attached":
            if tz[0] not in "+-" or "T" not in body:
                return None
            s = body + tz
        else:
            s = body + " " + tz
        cls = {"form": "offset", "spell": c["spell"], "pos": c["pos"]}
    else:
        tz = c["ab"]
        allowed = set(abbr[tz])
        s = body + (" (%s)" % tz if c["pos"] == "paren" else " " + tz)
        cls = {"form": "abbreviation", "name": tz, "pos": c["pos"]}
        if c.get("rata"):
            st = {"RETURN_AS_TIMEZONE_AWARE": True}
    if c["case"] == "lower":
        low = s[len(body):].lower()
        if low == s[len(body):]:
            return None
        s = body + low
        cls["case"] = "lower"
    o = api.outcome_of(api.gdd, s, ["en"] if c["lang"] == "en" else None, None, None, st)
    problems = []
    if o[0] == "exc":
        problems.append("exception " + o[1])
        got = o[1:]
    else:
        r = o[1].date_obj
        got = (r, o[1].period, o[1].locale)
        if r is None:
            problems.append("no result")
        elif r.tzinfo is None:
            problems.append("naive result")
        else:
            if r.utcoffset() not in {timedelta(seconds=x) for x in allowed}:
                problems.append("offset %s not the listed one" % r.utcoffset())
            if r.replace(tzinfo=None) != wall:
                problems.append("wall clock changed")
            try:
                r2 = pickle.loads(pickle.dumps(r))
                r3 = copy.deepcopy(r)
                r4 = copy.copy(r)
                for x, how in ((r2, "pickle"), (r3, "deepcopy"), (r4, "copy")):
                    if not (x == r and x.utcoffset() == r.utcoffset() and x.tzname() == r.tzname()
                            and x.replace(tzinfo=None) == r.replace(tzinfo=None)):
                        problems.append("%s changed the value" % how)
            except Exception as e:  # noqa: BLE001
                problems.append("pickle/copy raised %s" % type(e).__name__)
    if not problems:
        return "ok", True, None
    cls["problem"] = problems[0].split(" 0:")[0].split(" -")[0][:50] if not problems[0].startswith("offset") else "wrong offset"
    return "bad", True, {"cls": cls, "expected": {"offset_s": sorted(allowed), "wall": wall}, "observed": got,
                         "detail": {"string": s, "problems": problems, "lang": c["lang"]}}


def describe(sub, c):
    return {"body": BODIES[c["body"]][0]} if "body" in c else dict(c)
