"""C15 — Jalali and Hijri dates convert to the right Gregorian date (E1)."""
import functools
from datetime import datetime

from .. import api
from ..space import Product
from ..target import InfraError

ID = "C15"
LEVEL = "exploration"
TECHNIQUE = "bounded-exhaustive enumeration of valid Jalali (1200..1500) and Hijri (1343..1500) dates x spellings x time suffixes against the reference converters (convertdate.persian, hijridate) called directly"
RULE = ("cases = every valid date of the listed years/months x every spelling (numeric, Persian digits, each listed month "
        "spelling, weekday prefix, spelled-out day) x time suffix; quick sweeps all days of boundary years and boundary days of all "
        "years, thorough every date; non-trivial = the calendar parser returned a datetime; distinct = distinct case tuples")
ASSUMPTIONS = [
    "convertdate.persian.to_gregorian and hijridate.Hijri.to_gregorian are the reference conversions named by the statement",
    "convertdate.persian.equinox_jd (a pure function) is memoised in workers; the memoised converter is cross-checked against the plain one in selfcheck",
    "numeric day-first forms are judged only when the day exceeds 12 (the calendar parsers use the global default MDY order)",
]
CHUNK = 400
PD = "۰۱۲۳۴۵۶۷۸۹"
J_MONTHS = [["فروردین"], ["اردیبهشت"], ["خرداد"], ["تیر"], ["امرداد", "مرداد"], ["شهریور", "شهريور"], ["مهر"], ["آبان"], ["آذر"],
            ["دی"], ["بهمن", "بهن"], ["اسفند"]]
# weekday names, Monday first (datetime.weekday order)
J_WEEKDAYS = ["دوشنبه", "سه شنبه", "چهارشنبه", "پنجشنبه", "جمعه", "شنبه", "یکشنبه"]
J_DAYS = {1: ["یک", "اول"], 2: ["دو"], 3: ["سه", "سو"], 4: ["چهار"], 5: ["پنج"], 6: ["شش"], 7: ["هفت"], 8: ["هشت"], 9: ["نه"], 10: ["ده"],
          11: ["یازده"], 12: ["دوازده"], 13: ["سیزده"], 14: ["چهارده"], 15: ["پانزده"], 16: ["شانزده"], 17: ["هفده"], 18: ["هجده"],
          19: ["نوزده"], 20: ["بیست"], 21: ["بیست و یک"], 22: ["بیست و دو"], 23: ["بیست و سه"], 24: ["بیست و چهار"], 25: ["بیست و پنج"],
          26: ["بیست و شش"], 27: ["بیست و هفت"], 28: ["بیست و هشت"], 29: ["بیست و نه"], 30: ["سی"], 31: ["سی و یک"]}
J_FORMS = ["y/m/d", "y-m-d", "persian-digits", "name", "name-persian-digits", "weekday-name", "spelled-day", "d/m/y", "m/d/y", "name-first",
           "name-first-spelled"]
J_TIMES = ["", " ساعت 9:32", " 19:47", " ساعت 11 و 01 دقیقه و 47 ثانیه"]
J_TIME_VAL = [(0, 0, 0), (9, 32, 0), (19, 47, 0), (11, 1, 47)]
H_FORMS = ["y/m/d", "y-m-d", "d-m-y", "d-m-y هـ", "m-d-y", "m/d/y"]
H_TIMES = ["", ", 09:40 صباحاً", " 08:30 مساءً", " 23:59"]
H_TIME_VAL = [(0, 0, 0), (9, 40, 0), (20, 30, 0), (23, 59, 0)]
_memo_installed = False


def install_memo():
    global _memo_installed
    if not _memo_installed:
        from convertdate import persian
        if not hasattr(persian.equinox_jd, "cache_info"):
            persian.equinox_jd = functools.lru_cache(maxsize=None)(persian.equinox_jd)
        _memo_installed = True


def init_worker(tier, seed):
    install_memo()


def selfcheck():
    import importlib
    from convertdate import persian
    plain = [persian.to_gregorian(y, m, d) for (y, m, d) in ((1200, 1, 1), (1394, 6, 26), (1399, 12, 30), (1500, 12, 29), (1348, 10, 11))]
    install_memo()
    memo = [persian.to_gregorian(y, m, d) for (y, m, d) in ((1200, 1, 1), (1394, 6, 26), (1399, 12, 30), (1500, 12, 29), (1348, 10, 11))]
    if plain != memo:
        raise InfraError("memoised persian converter disagrees with the plain one")


def pdig(s):
    return "".join(PD[int(ch)] if ch.isdigit() else ch for ch in s)


def jalali_string(form, y, m, d, msp, dsp, wd, tsuf):
    if form == "y/m/d":
        s = "%04d/%02d/%02d" % (y, m, d)
    elif form == "y-m-d":
        s = "%04d-%02d-%02d" % (y, m, d)
    elif form == "d/m/y":
        s = "%02d/%02d/%04d" % (d, m, y)
    elif form == "m/d/y":
        s = "%02d/%02d/%04d" % (m, d, y)
    elif form == "name-first":
        s = "%s %d %d" % (J_MONTHS[m - 1][msp % len(J_MONTHS[m - 1])], d, y)
    elif form == "name-first-spelled":
        words = J_DAYS[d]
        s = "%s %s %s" % (J_MONTHS[m - 1][msp % len(J_MONTHS[m - 1])], words[dsp % len(words)], pdig("%d" % y))
    elif form == "persian-digits":
        s = pdig("%04d/%02d/%02d" % (y, m, d))
    elif form == "name":
        s = "%d %s %d" % (d, J_MONTHS[m - 1][msp % len(J_MONTHS[m - 1])], y)
    elif form == "name-persian-digits":
        s = pdig("%d" % d) + " " + J_MONTHS[m - 1][msp % len(J_MONTHS[m - 1])] + " " + pdig("%d" % y)
    elif form == "weekday-name":
        s = "%s %d %s %s" % (J_WEEKDAYS[wd], d, J_MONTHS[m - 1][msp % len(J_MONTHS[m - 1])], pdig("%d" % y))
    else:
        words = J_DAYS[d]
        s = "%s %s %s" % (words[dsp % len(words)] + "م", J_MONTHS[m - 1][msp % len(J_MONTHS[m - 1])], pdig("%d" % y))
    return s + tsuf


def spaces(tier, seed):
    T = tier == "thorough"
    byears = [1200, 1201, 1210, 1299, 1300, 1348, 1375, 1394, 1399, 1400, 1403, 1404, 1408, 1499, 1500]
    sp = [
        Product("jalali-boundary-years", {"cal": ["jalali"], "y": byears, "m": range(1, 13), "d": range(1, 32), "form": J_FORMS,
                                          "msp": [0, 1], "dsp": [0, 1], "t": [0, 1] if not T else range(4)}),
        Product("jalali-boundary-days-all-years", {"cal": ["jalali"], "y": range(1200, 1501), "md": [(1, 1), (12, 29), (12, 30), (6, 31), (7, 30), (7, 1)],
                                                   "form": ["y/m/d", "name", "spelled-day", "m/d/y", "name-first"], "msp": [0], "dsp": [0], "t": [0, 3]}),
        Product("hijri-all-dates", {"cal": ["hijri"], "y": range(1343, 1501), "m": range(1, 13), "d": range(1, 31), "form": ["y/m/d", "m-d-y"], "t": [0]},
                note="every Hijri date of the supported range"),
        Product("hijri-forms", {"cal": ["hijri"], "y": [1343, 1389, 1390, 1400, 1432, 1433, 1437, 1445, 1446, 1499, 1500], "m": range(1, 13),
                                "d": range(1, 31), "form": H_FORMS, "t": range(4)}),
    ]
    sp.append(Product("jalali-all-dates", {"cal": ["jalali"], "y": range(1200, 1501), "m": range(1, 13), "d": range(1, 32),
                                               "form": ["y/m/d"], "msp": [0], "dsp": [0], "t": [0]}, note="every Jalali date 1200..1500"))
    # the same numbers read by both calendar parsers one after the other (either order): a result must not depend on what the
    # other calendar converted before - a two-call history carried inside the case, so that it replays in a fresh process
    sp.append(Product("both-calendars-same-numbers", {"y": [1343, 1394, 1400, 1446, 1500] if not T else range(1343, 1501), "m": range(1, 13),
                                                      "d": [1, 15, 26, 29, 30], "first": ["jalali", "hijri"], "t": [0, 1]}))
    if T:
        sp.append(Product("jalali-all-spellings-every-10th-year", {"cal": ["jalali"], "y": range(1200, 1501, 10), "m": range(1, 13), "d": range(1, 32),
                                                                   "form": J_FORMS, "msp": [0, 1], "dsp": [0, 1], "t": [0, 2]}))
    return sp


def run_both(c):
    from convertdate import persian
    from hijridate import Hijri
    from dateparser.calendars.hijri import HijriCalendar
    from dateparser.calendars.jalali import JalaliCalendar
    y, m, d, t = c["y"], c["m"], c["d"], c["t"]
    exp = {}
    if d <= persian.month_length(y, m):
        exp["jalali"] = datetime(*persian.to_gregorian(y, m, d), *J_TIME_VAL[t])
    try:
        exp["hijri"] = datetime(*Hijri(y, m, d).to_gregorian().datetuple(), *H_TIME_VAL[t])
    except (ValueError, OverflowError):
        pass
    if len(exp) < 2:
        return None
    strs = {"jalali": "%04d/%02d/%02d%s" % (y, m, d, J_TIMES[t]), "hijri": "%04d/%02d/%02d%s" % (y, m, d, H_TIMES[t])}
    order = [c["first"], "hijri" if c["first"] == "jalali" else "jalali"]
    got = {}
    for cal_ in order:
        K = JalaliCalendar if cal_ == "jalali" else HijriCalendar
        o = api.outcome_of(lambda: K(strs[cal_]).get_date())
        got[cal_] = (o[1].date_obj if o[1] is not None else None) if o[0] == "ok" else ("exc",) + tuple(o[1:2])
    for cal_ in order:
        if got[cal_] != exp[cal_]:
            return "bad", True, {"cls": {"calendar": cal_, "form": "both-calendars", "kind": "wrong-value", "first": c["first"], "time": bool(t),
                                         "position": "first" if cal_ == c["first"] else "second"},
                                 "expected": exp, "observed": got, "detail": {"strings": strs, "order": order}}
    return "ok", True, None


def run_case(sub, c):
    if sub == "both-calendars-same-numbers":
        return run_both(c)
    y = c["y"]
    m, d = c["md"] if "md" in c else (c["m"], c["d"])
    t = c["t"]
    if c["cal"] == "jalali":
        from convertdate import persian
        from dateparser.calendars.jalali import JalaliCalendar
        if d > persian.month_length(y, m):
            return None
        form = c["form"]
        if form == "d/m/y" and d <= 12:
            return None
        if form in ("y/m/d", "y-m-d", "persian-digits", "d/m/y", "m/d/y") and (c["msp"] or c["dsp"]):
            return None
        if form not in ("spelled-day", "name-first-spelled") and c["dsp"]:
            return None
        g = persian.to_gregorian(y, m, d)
        wd = datetime(*g).weekday()
        s = jalali_string(form, y, m, d, c["msp"], c["dsp"], wd, J_TIMES[t])
        exp = datetime(*g, *J_TIME_VAL[t])
        o = api.outcome_of(lambda: JalaliCalendar(s).get_date())
    else:
        from hijridate import Hijri
        from dateparser.calendars.hijri import HijriCalendar
        try:
            h = Hijri(y, m, d)
        except (ValueError, OverflowError):
            return None
        form = c["form"]
        if form.startswith("d-m-y") and d <= 12:
            return None
        if form == "y/m/d":
            s = "%04d/%02d/%02d" % (y, m, d)
        elif form == "y-m-d":
            s = "%04d-%02d-%02d" % (y, m, d)
        elif form == "d-m-y":
            s = "%02d-%02d-%04d" % (d, m, y)
        elif form == "m-d-y":
            s = "%02d-%02d-%04d" % (m, d, y)
        elif form == "m/d/y":
            s = "%02d/%02d/%04d" % (m, d, y)
        else:
            s = "%02d-%02d-%04d هـ" % (d, m, y)
        s += H_TIMES[t]
        exp = datetime(*h.to_gregorian().datetuple(), *H_TIME_VAL[t])
        o = api.outcome_of(lambda: HijriCalendar(s).get_date())
    if o[0] == "ok":
        dd = o[1]
        got = None if dd is None else dd.date_obj
        if got == exp:
            return "ok", True, None
        kind = "none" if got is None else "wrong-value"
    else:
        got = o[1:]
        kind = "exception:" + o[1]
    cls = {"calendar": c["cal"], "form": form, "kind": kind, "time": bool(t), "day": "30-31" if d >= 30 else ("13-29" if d > 12 else "1-12")}
    return "bad", True, {"cls": cls, "expected": exp, "observed": got, "detail": {"string": s, "date": (y, m, d)}}
