"""C19 — import survives a missing, empty or truncated on-disk timezone cache (E3: crash-state enumeration)."""
import importlib
import json
import multiprocessing as mp
import os
import pickle
import random
import re
import shutil
import subprocess
import sys
import tempfile
import time
import types

from ..target import REPO, InfraError

ID = "C19"
LEVEL = "fault_enumeration"
TECHNIQUE = "crash-state enumeration: the cache write history is recorded from the real code with strace; every operation prefix x every byte cut of every write, every truncation of the complete cache, and the unreadable-content states are materialised and the real module-level import code is run on each, twice; plus exhaustive enumeration, within a preemption bound, of the interleavings of two real first imports at file-operation granularity under a baton scheduler, and of single write faults (short write / ENOSPC at every write) during the recovery"
RULE = ("one evaluation = one on-disk state of the package's data directory + a first and a second import of the real "
        "timezone_parser module code over it; states = {missing, empty, every listed prefix length of the complete cache, every "
        "operation boundary and listed byte cut of the recorded write history (with leftover temp files), zero-filled tails, "
        "all-zero, text, well-formed non-4-tuple pickles} + a reader import between every two writer operations; non-trivial = a "
        "damaged (not pristine) state; distinct = distinct directory states")
ASSUMPTIONS = [
    "strace's report of the write path is complete for files under the package's data directory; writes are sequential appends (checked)",
    "the module is executed under an alias package (fresh module-level code per state); representative states are additionally run as a true `python -c 'import dateparser'` subprocess against a full package copy",
    "not covered (the statement does not): well-formed 4-tuples with wrong content, a directory in place of the file, permission faults",
    "concurrent first import is explored at operation granularity with the reader's whole import placed between two consecutive writer operations",
]
CACHE = "dateparser_tz_cache.pkl"
SCRATCH = "/dev/shm"


# ----------------------------------------------------------------------------- reference table
def table_of(mod):
    rows = [(n, i["regex"].pattern, int(i["regex"].flags), i["offset"].total_seconds()) for n, i in mod._tz_offsets]
    return (rows, (mod._search_regex.pattern, int(mod._search_regex.flags)),
            (mod._search_regex_ignorecase.pattern, int(mod._search_regex_ignorecase.flags)))


def table_of_pickle(path):
    with open(path, "rb") as f:
        obj = pickle.load(f)
    h, offs, sr, sri = obj
    rows = [(n, i["regex"].pattern, int(i["regex"].flags), i["offset"].total_seconds()) for n, i in offs]
    return (rows, (sr.pattern, int(sr.flags)), (sri.pattern, int(sri.flags)))


def skeleton(d):
    os.makedirs(os.path.join(d, "data"), exist_ok=True)
    for f in ("timezone_parser.py", "timezones.py"):
        shutil.copyfile(os.path.join(REPO, "dateparser", f), os.path.join(d, f))
    open(os.path.join(d, "__init__.py"), "w").close()


_alias_n = [0]


def import_alias(d):
    """Run the real module-level code of timezone_parser.py found in directory d under a fresh alias package."""
    _alias_n[0] += 1
    alias = "verif_tzpkg_%d_%d" % (os.getpid(), _alias_n[0])
    pkg = types.ModuleType(alias)
    pkg.__path__ = [d]
    sys.modules[alias] = pkg
    try:
        return importlib.import_module(alias + ".timezone_parser")
    finally:
        for k in [k for k in sys.modules if k == alias or k.startswith(alias + ".")]:
            del sys.modules[k]


# ----------------------------------------------------------------------------- recording the write history
_LINE = re.compile(r"^(?:\d+\s+)?(\w+)\((.*)\)\s+=\s+(-?\d+)(?:<[^>]*>)?(?:\s+\w+.*)?$")


def record_history():
    """-> (ops, contents): ops on files under data/, in order; contents: final bytes of every file name that ever existed."""
    if not shutil.which("strace"):
        raise InfraError("strace not available")
    d = tempfile.mkdtemp(prefix="verif-c19rec-", dir=SCRATCH)
    try:
        pk = os.path.join(d, "recpkg")
        skeleton(pk)
        trace = os.path.join(d, "trace.txt")
        env = dict(os.environ, PYTHONPATH=d, PYTHONDONTWRITEBYTECODE="1")
        env.pop("BUILD_TZ_CACHE", None)
        r = subprocess.run(["strace", "-f", "-y", "-s", "0", "-o", trace, "-e",
                            "trace=open,openat,creat,write,pwrite64,writev,lseek,rename,renameat,renameat2,unlink,unlinkat,"
                            "ftruncate,truncate,fsync,fdatasync,close,link,linkat",
                            sys.executable, "-c", "import recpkg.timezone_parser"],
                           capture_output=True, text=True, timeout=300, env=env)
        if r.returncode != 0:
            raise InfraError("recording run failed: " + r.stderr[-2000:])
        datadir = os.path.realpath(os.path.join(pk, "data")) + os.sep
        ops = []
        openfd = {}
        for line in open(trace, errors="replace"):
            if datadir not in line:
                continue
            m = _LINE.match(line.strip())
            if not m:
                if "unfinished" in line or "resumed" in line:
                    raise InfraError("interleaved strace output not supported: " + line)
                continue
            call, args, ret = m.group(1), m.group(2), int(m.group(3))
            if ret < 0:
                continue
            paths = [p[len(datadir):] for p in re.findall(r'"([^"]*)"', args) if p.startswith(datadir)]
            fdpaths = [p[len(datadir):] for p in re.findall(r"\d+<([^>]*)>", args) if p.startswith(datadir)]
            if call in ("open", "openat", "creat"):
                if not paths:
                    continue
                wr = "O_WRONLY" in args or "O_RDWR" in args or call == "creat"
                if not wr:
                    continue
                if "O_APPEND" in args:
                    raise InfraError("append-mode open not modelled")
                ops.append(("open", paths[0], "O_TRUNC" in args or call == "creat", "O_CREAT" in args or call == "creat", "O_EXCL" in args))
                openfd[paths[0]] = True
            elif call in ("write", "writev"):
                if fdpaths and openfd.get(fdpaths[0]):
                    ops.append(("write", fdpaths[0], ret))
            elif call == "lseek" and re.search(r">, 0, SEEK_CUR$", args):
                continue  # a tell()
            elif call in ("pwrite64", "lseek", "ftruncate", "truncate", "link", "linkat"):
                if fdpaths and openfd.get(fdpaths[0]) or paths:
                    raise InfraError("non-sequential write pattern (%s) not modelled" % call)
            elif call in ("fsync", "fdatasync"):
                if fdpaths and openfd.get(fdpaths[0]):
                    ops.append(("fsync", fdpaths[0]))
            elif call == "close":
                if fdpaths and openfd.get(fdpaths[0]):
                    ops.append(("close", fdpaths[0]))
                    openfd[fdpaths[0]] = False
            elif call in ("rename", "renameat", "renameat2"):
                if len(paths) == 2:
                    ops.append(("rename", paths[0], paths[1]))
                    openfd[paths[1]] = openfd.pop(paths[0], False)
            elif call in ("unlink", "unlinkat"):
                if paths:
                    ops.append(("unlink", paths[0]))
        final = {}
        for f in os.listdir(os.path.join(pk, "data")):
            final[f] = open(os.path.join(pk, "data", f), "rb").read()
        # content source of every name: follow renames backwards from the final files
        contents = dict(final)
        for op in reversed(ops):
            if op[0] == "rename" and op[2] in contents and op[1] not in contents:
                contents[op[1]] = contents[op[2]]
        written = {}
        for op in ops:
            if op[0] == "open" and op[2]:
                written[op[1]] = 0
            elif op[0] == "write":
                written[op[1]] = written.get(op[1], 0) + op[2]
            elif op[0] == "rename":
                written[op[2]] = written.pop(op[1], 0)
        for name, n in written.items():
            if name in final and len(final[name]) != n:
                raise InfraError("write sizes (%d) do not add up to the final size (%d) of %s" % (n, len(final[name]), name))
        if CACHE not in final:
            raise InfraError("the recorded import did not produce %s" % CACHE)
        return ops, contents
    finally:
        shutil.rmtree(d, ignore_errors=True)


def apply_ops(ops, contents, upto, cut=None, state=None):
    """Directory state {name: bytes} after ops[:upto]; if cut is not None, ops[upto] is a write torn after `cut` bytes."""
    files = dict(state or {})
    progress = {}
    seq = list(ops[:upto])
    if cut is not None:
        op = ops[upto]
        seq.append(("write", op[1], cut))
    for op in seq:
        if op[0] == "open":
            if op[2] or op[1] not in files:
                files[op[1]] = b""
                progress[op[1]] = 0
            else:
                progress[op[1]] = 0
        elif op[0] == "write":
            p = progress.get(op[1], len(files.get(op[1], b"")))
            src = contents[op[1]]
            files[op[1]] = files.get(op[1], b"")[:p] + src[p:p + op[2]]
            progress[op[1]] = p + op[2]
        elif op[0] == "rename":
            files[op[2]] = files.pop(op[1])
            if op[1] in progress:
                progress[op[2]] = progress.pop(op[1])
        elif op[0] == "unlink":
            files.pop(op[1], None)
    return files


# ----------------------------------------------------------------------------- recovery run (in a worker)
_REF = None


def recover(state):
    """state: {'files': {name: bytes}, 'label': …}.  Returns None or a violation dict."""
    d = tempfile.mkdtemp(prefix="verif-c19-", dir=SCRATCH)
    try:
        skeleton(d)
        for name, data in state["files"].items():
            if state.get("same_pid") and re.match(r"^%s\.\d+\.tmp$" % re.escape(CACHE), name):
                # the interrupted writer had the process id the recovering import has now (pid 1 of a restarted container)
                name = "%s.%d.tmp" % (CACHE, os.getpid())
            with open(os.path.join(d, "data", name), "wb") as f:
                f.write(data)
        before = set(os.listdir(os.path.join(d, "data")))
        if state.get("same_pid"):
            before = {n for n in before if not n.endswith(".tmp")}      # a temp file under our own pid is ours to reuse or remove
        cache = os.path.join(d, "data", CACHE)
        try:
            m1 = import_alias(d)
        except BaseException as e:  # noqa: BLE001
            if isinstance(e, (KeyboardInterrupt, SystemExit)):
                raise
            return {"stage": "first import", "problem": "import raised %s" % type(e).__name__, "message": str(e)[:200]}
        if table_of(m1) != _REF:
            return {"stage": "first import", "problem": "timezone table differs from the one the source defines"}
        if not os.path.exists(cache):
            return {"stage": "after import", "problem": "cache file missing after import"}
        try:
            t = table_of_pickle(cache)
        except BaseException as e:  # noqa: BLE001
            return {"stage": "after import", "problem": "cache on disk still unreadable (%s)" % type(e).__name__}
        if t != _REF:
            return {"stage": "after import", "problem": "cache on disk does not carry the reference table"}
        extra = set(os.listdir(os.path.join(d, "data"))) - before - {CACHE}
        if extra:
            return {"stage": "after import", "problem": "import left extra files behind", "files": sorted(extra)}
        try:
            m2 = import_alias(d)
        except BaseException as e:  # noqa: BLE001
            return {"stage": "second import", "problem": "import raised %s" % type(e).__name__}
        if table_of(m2) != _REF:
            return {"stage": "second import", "problem": "timezone table differs"}
        return None
    finally:
        shutil.rmtree(d, ignore_errors=True)


def _work(task):
    try:
        label, files, meta = task
        files = {k: v for k, v in files.items() if not k.startswith("\0")}
        t0 = time.time()
        v = recover({"files": files, "same_pid": meta.get("same_pid", False)})
        return label, meta, v, time.time() - t0
    except Exception:  # noqa: BLE001
        import traceback
        return "__error__", None, traceback.format_exc(), 0


def _init(ref):
    global _REF
    _REF = ref
    sys.dont_write_bytecode = True


def reference_table():
    from ..props.c16 import rebuild_tz_reference
    ref = rebuild_tz_reference()
    rows = [tuple(r) for r in ref["rows"]]
    return (rows, tuple(ref["search"]), tuple(ref["search_i"]))


def frame_boundaries(data):
    """Offsets of pickle protocol-5 FRAME opcodes (0x95 + 8-byte length), walked from the start."""
    out = []
    i = 2 if data[:1] == b"\x80" else 0
    while i < len(data) and data[i] == 0x95:
        out.append(i)
        n = int.from_bytes(data[i + 1:i + 9], "little")
        i += 9 + n
    return out


def cut_points(n, tier, seed, boundaries):
    if tier == "thorough":
        return list(range(0, n + 1))
    pts = set(range(0, min(n, 513))) | set(range(max(0, n - 512), n + 1))
    for b in boundaries:
        pts |= set(range(max(0, b - 32), min(n, b + 33)))
    pts |= set(range(seed % 128, n, 128))
    return sorted(p for p in pts if 0 <= p <= n)


def run(tier, seed, jobs, deadline, report):
    t0 = time.time()
    ref = reference_table()
    ops, contents = record_history()
    complete = contents[CACHE]
    N = len(complete)
    shipped_path = os.path.join(REPO, "dateparser", "data", CACHE)
    shipped = open(shipped_path, "rb").read() if os.path.exists(shipped_path) else None
    writes = [i for i, op in enumerate(ops) if op[0] == "write"]
    bounds = frame_boundaries(complete)
    wb = []
    acc = 0
    for i in writes:
        acc += ops[i][2]
        wb.append(acc)
    tasks = {}

    def add(label, files, meta):
        key = tuple(sorted((k, hash(v), len(v)) for k, v in files.items()))
        if key not in tasks:
            tasks[key] = (label, files, meta)

    add("missing", {}, {"family": "basic"})
    add("empty", {CACHE: b""}, {"family": "basic"})
    add("complete", {CACHE: complete}, {"family": "pristine"})
    # A: every listed truncation of the complete cache this code writes
    for k in cut_points(N, tier, seed, bounds + wb):
        if k < N:
            add("prefix:%d/%d" % (k, N), {CACHE: complete[:k]}, {"family": "truncated-cache", "cut": k})
    # A': truncations of the shipped file (quick subset in both tiers)
    if shipped is not None and shipped != complete:
        for k in cut_points(len(shipped), "quick", seed, frame_boundaries(shipped)):
            if k < len(shipped):
                add("shipped-prefix:%d/%d" % (k, len(shipped)), {CACHE: shipped[:k]}, {"family": "truncated-shipped-cache", "cut": k})
        add("shipped-complete", {CACHE: shipped}, {"family": "pristine"})
    # B: crash states of the recorded write history (operation boundaries, torn writes, leftover temp files)
    for i in range(len(ops) + 1):
        add("history:after-%d-ops" % i, apply_ops(ops, contents, i), {"family": "write-history", "ops_done": i})
    for i in writes:
        size = ops[i][2]
        start = sum(ops[j][2] for j in writes if j < i and ops[j][1] == ops[i][1])
        pts = range(0, size + 1) if tier == "thorough" else sorted(
            set(range(0, min(size, 65))) | set(range(max(0, size - 64), size + 1)) | set(range(seed % 257, size, 257)))
        for c in pts:
            add("history:op%d-torn-at-%d" % (i, c), apply_ops(ops, contents, i, c), {"family": "write-history-torn", "op": i, "cut": c, "abs": start + c})
    # B': the same crash states, the leftover temp file carrying the pid of the recovering process
    for i in range(len(ops) + 1):
        st_ = apply_ops(ops, contents, i)
        if any(n != CACHE for n in st_):
            add("history-same-pid:after-%d-ops" % i, dict(st_, **{"\0same-pid": b""}), {"family": "write-history-same-pid", "ops_done": i, "same_pid": True})
    # C: unreadable content
    for b in sorted(set(wb + bounds + [1, 2, N // 2])):
        if 0 < b < N:
            add("zero-tail:%d" % b, {CACHE: complete[:b] + b"\0" * (N - b)}, {"family": "zero-filled-tail", "cut": b})
    add("all-zero", {CACHE: b"\0" * N}, {"family": "garbage"})
    add("text", {CACHE: b"this is not a pickle\n"}, {"family": "garbage"})
    add("pickle-empty-tuple", {CACHE: pickle.dumps((), protocol=5)}, {"family": "garbage"})
    add("pickle-none", {CACHE: pickle.dumps(None, protocol=5)}, {"family": "garbage"})
    add("pickle-3-tuple", {CACHE: pickle.dumps((1, 2, 3), protocol=5)}, {"family": "garbage"})
    add("pickle-str", {CACHE: pickle.dumps("x" * 100, protocol=5)}, {"family": "garbage"})
    tl = list(tasks.values())
    random.Random(seed).shuffle(tl)
    ctx = mp.get_context("fork")
    fams = {}
    nontriv = 0
    done = 0
    with ctx.Pool(jobs, initializer=_init, initargs=(ref,)) as pool:
        for label, meta, v, dt in pool.imap_unordered(_work, tl, chunksize=4):
            if label == "__error__":
                pool.terminate()
                raise InfraError(v)
            done += 1
            fams[meta["family"]] = fams.get(meta["family"], 0) + 1
            if meta["family"] != "pristine":
                nontriv += 1
            if v is None:
                report.hist["recovered"] = report.hist.get("recovered", 0) + 1
            else:
                report.hist["failed"] = report.hist.get("failed", 0) + 1
                report.add_violation({"cls": {"family": meta["family"], "stage": v["stage"], "problem": v["problem"]},
                                      "expected": "import succeeds with the reference table; cache complete afterwards",
                                      "observed": v, "detail": dict(meta, label=label)},
                                     case={"label": label, "meta": meta}, sub=meta["family"])
            if time.time() - t0 > deadline:
                pool.terminate()
                report.exhaustive = False
                report.notes.append("deadline hit after %d of %d states" % (done, len(tl)))
                break
    # concurrent first import at operation granularity: reader imports between two writer operations, writer then finishes
    conc = 0
    _init(ref)
    for i in range(len(ops) + 1):
        conc += 1
        v = concurrent_case(ops, contents, i)
        if v is not None:
            report.add_violation({"cls": {"family": "concurrent-first-import", "stage": v["stage"], "problem": v["problem"]},
                                  "expected": "both imports succeed; cache complete afterwards", "observed": v,
                                  "detail": {"reader_runs_after_writer_ops": i, "writer_ops": [list(o) for o in ops]}},
                                 case={"label": "concurrent:%d" % i, "meta": {"family": "concurrent-first-import", "i": i}},
                                 sub="concurrent-first-import")
    # two real importers at once: every interleaving of their file operations with at most `bound` preemptions
    bound = 3 if tier == "thorough" else 2
    two = two_importers([("missing", {}), ("truncated", {CACHE: complete[:N // 2]})] + ([("empty", {CACHE: b""})] if tier == "thorough" else []),
                        bound, jobs, ref, max(t0 + deadline, time.time() + (1800 if tier == "thorough" else 240)))   # its own floor: the byte cuts before it must not starve it
    if not two["complete"]:
        report.exhaustive = False
        report.notes.append("deadline hit in the two-importer exploration after %d schedules" % two["schedules"])
    groups = {}
    for b in two["bad"]:
        groups.setdefault((b["initial"], b["problem"]["stage"].split(" of participant")[0], b["problem"]["problem"]), []).append(b)
    for (ini, stage, prob), bs in groups.items():
        first = min(bs, key=lambda b: len(b["choices"]))
        report.add_violation({"cls": {"family": "two-concurrent-first-imports", "initial": ini, "stage": stage, "problem": prob},
                              "count": len(bs),
                              "examples": [{"sub": "two-concurrent-first-imports", "case": {"label": "two-importers", "initial": ini, "choices": first["choices"],
                                                                                           "meta": {"family": "two-concurrent-first-imports"}},
                                            "expected": "both imports succeed with the reference table; cache complete, nothing left behind",
                                            "observed": first["problem"], "detail": {"interleaving": first["ops"], "schedules_with_this_outcome": len(bs)}}]})
    # faults during the recovery's own write: each write cut short (not an error: a raw file may take fewer bytes) or failing with ENOSPC
    wf = write_faults([("missing", {}), ("truncated", {CACHE: complete[:N // 2]}), ("empty", {CACHE: b""})], jobs, ref)
    if wf["faults_reached"] < 6:
        raise InfraError("write-fault injection reached only %d writes: the hooks no longer see the cache write" % wf["faults_reached"])
    wgroups = {}
    for b in wf["bad"]:
        wgroups.setdefault((b["kind"], b["problem"]["stage"], b["problem"]["problem"]), []).append(b)
    for (kind, stage, prob), bs in wgroups.items():
        first = min(bs, key=lambda b: b["k"])
        report.add_violation({"cls": {"family": "fault-during-the-recovery-write", "fault": kind, "stage": stage, "problem": prob},
                              "count": len(bs),
                              "examples": [{"sub": "fault-during-the-recovery-write",
                                            "case": {"label": "write-fault", "initial": first["initial"], "k": first["k"], "kind": kind,
                                                     "meta": {"family": "fault-during-the-recovery-write"}},
                                            "expected": "short write: import succeeds and the cache is complete; ENOSPC: a later import repairs the cache",
                                            "observed": first["problem"], "detail": {"write_index": first["k"], "initial": first["initial"]}}]})
    # representative states as true subprocess imports of the whole package
    sub_n = 0
    for label, files in [("missing", {}), ("empty", {CACHE: b""}), ("prefix:1", {CACHE: complete[:1]}),
                         ("prefix:N-1", {CACHE: complete[:N - 1]}), ("prefix:N/2", {CACHE: complete[:N // 2]})] + \
                        [("prefix:frame@%d" % b, {CACHE: complete[:b]}) for b in bounds[1:3]]:
        sub_n += 1
        v = subprocess_case(files)
        if v is not None:
            report.add_violation({"cls": {"family": "subprocess-import", "stage": v["stage"], "problem": v["problem"]},
                                  "expected": "python -c 'import dateparser' exits 0 twice; cache complete afterwards",
                                  "observed": v, "detail": {"label": label}},
                                 case={"label": "subprocess:" + label, "meta": {"family": "subprocess-import"}}, sub="subprocess-import")
    report.evaluations = done + conc + sub_n + two["schedules"] + wf["faults_reached"]
    report.nontrivial = nontriv + conc + sub_n + two["schedules"] + wf["faults_reached"]
    report.samples = [{"label": l, "meta": m, "file_sizes": {k: len(v) for k, v in f.items()}} for (l, f, m) in tl[:6]]
    report.subspaces = [{"name": k, "size": v, "executed": v, "complete": True} for k, v in sorted(fams.items())] + [
        {"name": "concurrent-first-import", "size": conc, "executed": conc, "complete": True},
        {"name": "subprocess-import", "size": sub_n, "executed": sub_n, "complete": True},
        {"name": "fault-during-the-recovery-write", "size": wf["faults_reached"], "executed": wf["faults_reached"], "complete": True},
        {"name": "two-concurrent-first-imports (preemption bound %d)" % bound, "size": two["schedules"], "executed": two["schedules"], "complete": two["complete"]}]
    report.extra.update({"write_faults": {"executions": wf["executions"], "faults_reached": wf["faults_reached"], "outcomes": wf["outcomes"]},
                         "two_importers": {"preemption_bound": bound, "schedules": two["schedules"], "per_initial_state": two["per_initial"],
                                           "max_scheduling_points": two["max_points"], "outcomes": two["outcomes"]},
                         "crash_states": done, "cache_bytes": N, "shipped_cache_bytes": len(shipped) if shipped else None,
                         "syscall_trace": [list(o) for o in ops], "pickle_frame_offsets": bounds,
                         "all_byte_cuts": tier == "thorough"})


def concurrent_case(ops, contents, i):
    """Writer W has executed ops[:i]; reader R imports now; W executes the rest; then a third import must see a complete cache."""
    d = tempfile.mkdtemp(prefix="verif-c19c-", dir=SCRATCH)
    try:
        skeleton(d)
        dd = os.path.join(d, "data")
        for name, data in apply_ops(ops, contents, i).items():
            open(os.path.join(dd, name), "wb").write(data)
        try:
            m = import_alias(d)
        except BaseException as e:  # noqa: BLE001
            return {"stage": "reader import", "problem": "import raised %s" % type(e).__name__, "message": str(e)[:200]}
        if table_of(m) != _REF:
            return {"stage": "reader import", "problem": "timezone table differs"}
        # writer continues on the real directory
        cur = {n: open(os.path.join(dd, n), "rb").read() for n in os.listdir(dd)}
        prog = {}
        st = apply_ops(ops, contents, i)
        for name in st:
            prog[name] = len(st[name])
        for op in ops[i:]:
            if op[0] == "open":
                if op[2] or op[1] not in cur:
                    cur[op[1]] = b""
                prog[op[1]] = 0
            elif op[0] == "write":
                p = prog.get(op[1], 0)
                base = cur.get(op[1], b"")
                chunk = contents[op[1]][p:p + op[2]]
                cur[op[1]] = base[:p] + chunk + base[p + len(chunk):]
                prog[op[1]] = p + op[2]
            elif op[0] == "rename":
                if op[1] in cur:
                    cur[op[2]] = cur.pop(op[1])
            elif op[0] == "unlink":
                cur.pop(op[1], None)
        for n in os.listdir(dd):
            os.unlink(os.path.join(dd, n))
        for n, data in cur.items():
            open(os.path.join(dd, n), "wb").write(data)
        try:
            t = table_of_pickle(os.path.join(dd, CACHE))
        except BaseException as e:  # noqa: BLE001
            return {"stage": "after both", "problem": "cache on disk unreadable (%s)" % type(e).__name__}
        if t != _REF:
            return {"stage": "after both", "problem": "cache on disk does not carry the reference table"}
        try:
            m3 = import_alias(d)
        except BaseException as e:  # noqa: BLE001
            return {"stage": "third import", "problem": "import raised %s" % type(e).__name__}
        if table_of(m3) != _REF:
            return {"stage": "third import", "problem": "timezone table differs"}
        return None
    finally:
        shutil.rmtree(d, ignore_errors=True)



# ----------------------------------------------------------------------------- two real importers, all interleavings within a bound
def _write_fault_child(initial_files, k, kind):
    """One importer whose k-th write is cut short or fails with ENOSPC (runs in a forked child); then a fault-free import."""
    from .. import iosched
    d = tempfile.mkdtemp(prefix="verif-c19w-", dir=SCRATCH)
    try:
        skeleton(d)
        dd = os.path.join(d, "data")
        for name, data in initial_files.items():
            with open(os.path.join(dd, name), "wb") as f:
                f.write(data)
        before = set(os.listdir(dd))
        sched = iosched.Sched(d, 1)
        sched.write_fault = (k, kind)
        iosched.install(sched, [70001])
        results = sched.run([lambda: import_alias(d)], [])
        r = results[0]
        cache = os.path.join(dd, CACHE)
        out = {"writes": sched.writes, "reached": sched.writes > k, "first": r[0] if r else None, "problem": None}
        if not out["reached"]:
            return out
        if r[0] == "ok":
            if table_of(r[1]) != _REF:
                out["problem"] = {"stage": "import with the fault", "problem": "timezone table differs from the one the source defines"}
                return out
            if kind == "short" or os.path.exists(cache):
                # a short write is not an error: the import said it succeeded, so the cache must be complete
                try:
                    if not os.path.exists(cache):
                        out["problem"] = {"stage": "after the import with the fault", "problem": "cache file missing"}
                    elif table_of_pickle(cache) != _REF:
                        out["problem"] = {"stage": "after the import with the fault", "problem": "cache on disk does not carry the reference table"}
                except BaseException as e:  # noqa: BLE001
                    out["problem"] = {"stage": "after the import with the fault", "problem": "import succeeded but left an unreadable cache (%s)" % type(e).__name__}
                if out["problem"]:
                    return out
        elif kind == "short":
            out["problem"] = {"stage": "import with the fault", "problem": "import raised %s although no write failed" % r[1]}
            return out
        # the damage must not persist: a later import without faults succeeds and leaves a complete cache
        sched.write_fault = None
        try:
            m2 = import_alias(d)
        except BaseException as e:  # noqa: BLE001
            out["problem"] = {"stage": "next import", "problem": "import raised %s" % type(e).__name__}
            return out
        if table_of(m2) != _REF:
            out["problem"] = {"stage": "next import", "problem": "timezone table differs"}
            return out
        try:
            if table_of_pickle(cache) != _REF:
                out["problem"] = {"stage": "after the next import", "problem": "cache on disk does not carry the reference table"}
        except BaseException as e:  # noqa: BLE001
            out["problem"] = {"stage": "after the next import", "problem": "cache on disk unreadable (%s)" % type(e).__name__}
        extra = set(os.listdir(dd)) - before - {CACHE}
        if out["problem"] is None and extra:
            out["problem"] = {"stage": "after the next import", "problem": "extra files left behind", "files": sorted(extra)}
        return out
    finally:
        shutil.rmtree(d, ignore_errors=True)


def _write_fault_task(task):
    try:
        name, files, k, kind = task
        r, w = os.pipe()
        pid = os.fork()
        if pid == 0:
            try:
                os.close(r)
                try:
                    out = _write_fault_child(files, k, kind)
                except BaseException:  # noqa: BLE001
                    import traceback
                    out = {"error": traceback.format_exc()}
                with os.fdopen(w, "w") as f:
                    json.dump(out, f)
            finally:
                os._exit(0)
        os.close(w)
        with os.fdopen(r) as f:
            data = f.read()
        os.waitpid(pid, 0)
        out = json.loads(data) if data else {"error": "no result"}
        out.update({"initial": name, "k": k, "kind": kind})
        return out
    except Exception:  # noqa: BLE001
        import traceback
        return {"error": traceback.format_exc()}


def write_faults(initials, jobs, ref, max_k=12):
    """Every write of the recovery, cut short or failing with ENOSPC, one fault per execution."""
    tasks = [(name, files, k, kind) for name, files in initials for k in range(max_k) for kind in ("short", "enospc")]
    ctx = mp.get_context("fork")
    res = {"executions": 0, "faults_reached": 0, "bad": [], "outcomes": {}}
    with ctx.Pool(jobs, initializer=_init, initargs=(ref,)) as pool:
        for out in pool.imap_unordered(_write_fault_task, tasks, chunksize=1):
            if "error" in out:
                pool.terminate()
                raise InfraError("write-fault execution failed: %s" % out["error"])
            res["executions"] += 1
            if not out["reached"]:
                continue
            res["faults_reached"] += 1
            key = "%s/%s" % (out["kind"], "ok" if out["problem"] is None else out["problem"]["problem"])
            res["outcomes"][key] = res["outcomes"].get(key, 0) + 1
            if out["problem"] is not None:
                res["bad"].append(out)
    return res


def _two_importers_child(initial_files, prefix, nthreads=2):
    """One schedule (runs in a forked child): nthreads real imports on one scratch directory under the I/O scheduler."""
    from .. import iosched
    d = tempfile.mkdtemp(prefix="verif-c19t-", dir=SCRATCH)
    try:
        skeleton(d)
        dd = os.path.join(d, "data")
        for name, data in initial_files.items():
            with open(os.path.join(dd, name), "wb") as f:
                f.write(data)
        before = set(os.listdir(dd))
        sched = iosched.Sched(d, nthreads)
        iosched.install(sched, [70001 + i for i in range(nthreads)])
        try:
            results = sched.run([lambda: import_alias(d)] * nthreads, prefix)
        except RuntimeError as e:
            return {"error": str(e), "trace": [[en, ch, cur, lab] for en, ch, cur, lab in sched.trace]}
        prob = None
        for i, r in enumerate(results):
            if r is None or r[0] != "ok":
                prob = {"stage": "import of participant %d" % i, "problem": "import raised %s" % (r[1] if r else "nothing"), "message": r[2] if r else ""}
                break
            if table_of(r[1]) != _REF:
                prob = {"stage": "import of participant %d" % i, "problem": "timezone table differs from the one the source defines"}
                break
        if prob is None:
            cache = os.path.join(dd, CACHE)
            if not os.path.exists(cache):
                prob = {"stage": "after both imports", "problem": "cache file missing"}
            else:
                try:
                    if table_of_pickle(cache) != _REF:
                        prob = {"stage": "after both imports", "problem": "cache on disk does not carry the reference table"}
                except BaseException as e:  # noqa: BLE001
                    prob = {"stage": "after both imports", "problem": "cache on disk unreadable (%s)" % type(e).__name__}
            extra = set(os.listdir(dd)) - before - {CACHE}
            if prob is None and extra:
                prob = {"stage": "after both imports", "problem": "extra files left behind", "files": sorted(extra)}
        return {"trace": [[en, ch, cur, lab] for en, ch, cur, lab in sched.trace], "problem": prob}
    finally:
        shutil.rmtree(d, ignore_errors=True)


def _two_importers_task(task):
    try:
        name, files, prefix = task
        r, w = os.pipe()
        pid = os.fork()
        if pid == 0:
            try:
                os.close(r)
                try:
                    out = _two_importers_child(files, prefix)
                except BaseException:  # noqa: BLE001
                    import traceback
                    out = {"error": traceback.format_exc()}
                with os.fdopen(w, "w") as f:
                    json.dump(out, f)
            finally:
                os._exit(0)
        os.close(w)
        with os.fdopen(r) as f:
            data = f.read()
        os.waitpid(pid, 0)
        if not data:
            return {"error": "schedule child produced no result", "initial": name, "prefix": prefix}
        out = json.loads(data)
        out["initial"] = name
        out["prefix"] = prefix
        return out
    except Exception:  # noqa: BLE001
        import traceback
        return {"error": traceback.format_exc()}


def two_importers(initials, bound, jobs, ref, deadline_at):
    """All schedules of two concurrent first imports with at most `bound` preemptions, per initial state.  Level-synchronous:
    the alternatives of every executed schedule form the next level."""
    from .. import iosched
    ctx = mp.get_context("fork")
    stats = {"schedules": 0, "bad": [], "per_initial": {}, "complete": True, "max_points": 0, "outcomes": {}}
    with ctx.Pool(jobs, initializer=_init, initargs=(ref,)) as pool:
        level = [(name, files, []) for name, files in initials]
        seen = set()
        while level:
            nxt = []
            for out in pool.imap_unordered(_two_importers_task, level, chunksize=1):
                if "error" in out:
                    pool.terminate()
                    raise InfraError("two-importer schedule failed (%s, prefix %s): %s" % (out.get("initial"), out.get("prefix"), out["error"]))
                stats["schedules"] += 1
                name = out["initial"]
                stats["per_initial"][name] = stats["per_initial"].get(name, 0) + 1
                trace = [(tuple(en), ch, cur, lab) for en, ch, cur, lab in out["trace"]]
                stats["max_points"] = max(stats["max_points"], len(trace))
                okey = "ok" if out["problem"] is None else out["problem"]["problem"]
                stats["outcomes"][okey] = stats["outcomes"].get(okey, 0) + 1
                if out["problem"] is not None:
                    stats["bad"].append({"initial": name, "choices": [t[1] for t in trace], "ops": [[t[1], t[3]] for t in trace], "problem": out["problem"]})
                files = dict(initials)[name]
                for alt in iosched.alternatives(trace, len(out["prefix"]), bound):
                    key = (name, tuple(alt))
                    if key not in seen:
                        seen.add(key)
                        nxt.append((name, files, alt))
                if time.time() > deadline_at:
                    pool.terminate()
                    stats["complete"] = False
                    return stats
            level = nxt
    return stats


def subprocess_case(files):
    d = tempfile.mkdtemp(prefix="verif-c19s-", dir=SCRATCH)
    try:
        shutil.copytree(os.path.join(REPO, "dateparser"), os.path.join(d, "dateparser"), ignore=shutil.ignore_patterns("__pycache__"))
        shutil.copytree(os.path.join(REPO, "dateparser_data"), os.path.join(d, "dateparser_data"), ignore=shutil.ignore_patterns("__pycache__", "cldr_language_data", "supplementary_language_data"))
        cache = os.path.join(d, "dateparser", "data", CACHE)
        if os.path.exists(cache):
            os.unlink(cache)
        for n, data in files.items():
            open(os.path.join(d, "dateparser", "data", n), "wb").write(data)
        env = dict(os.environ, PYTHONPATH=d, PYTHONDONTWRITEBYTECODE="1")
        env.pop("BUILD_TZ_CACHE", None)
        for k in (1, 2):
            r = subprocess.run([sys.executable, "-c", "import dateparser, os; assert os.path.realpath(dateparser.__file__).startswith(%r); "
                                "print(dateparser.parse('2014-05-05 10:00 EST'))" % os.path.realpath(d)],
                               capture_output=True, text=True, timeout=120, env=env, cwd=d)
            if r.returncode != 0:
                return {"stage": "subprocess import %d" % k, "problem": "exit status %d" % r.returncode, "stderr": r.stderr[-300:]}
            if "2014-05-05 10:00:00-05:00" not in r.stdout:
                return {"stage": "subprocess import %d" % k, "problem": "wrong parse through the loaded table", "stdout": r.stdout[-200:]}
        try:
            if table_of_pickle(cache) != _REF:
                return {"stage": "after subprocess imports", "problem": "cache on disk does not carry the reference table"}
        except BaseException as e:  # noqa: BLE001
            return {"stage": "after subprocess imports", "problem": "cache on disk unreadable (%s)" % type(e).__name__}
        return None
    finally:
        shutil.rmtree(d, ignore_errors=True)


def replay(rec):
    ref = reference_table()
    _init(ref)
    ops, contents = record_history()
    complete = contents[CACHE]
    label = rec["case"]["label"]
    meta = rec["case"]["meta"]
    if label == "write-fault":
        ini = rec["case"]["initial"]
        files = {"missing": {}, "empty": {CACHE: b""}, "truncated": {CACHE: complete[:len(complete) // 2]}}[ini]
        out = _write_fault_task((ini, files, rec["case"]["k"], rec["case"]["kind"]))
        if "error" in out:
            raise InfraError(out["error"])
        v = out["problem"]
        if v is None:
            return None
        return {"cls": {"family": meta["family"], "fault": rec["case"]["kind"], "stage": v["stage"], "problem": v["problem"]},
                "expected": "no lasting damage", "observed": v}
    if label == "two-importers":
        ini = rec["case"]["initial"]
        files = {"missing": {}, "empty": {CACHE: b""}, "truncated": {CACHE: complete[:len(complete) // 2]}}[ini]
        out = _two_importers_task((ini, files, list(rec["case"]["choices"])))
        if "error" in out:
            raise InfraError(out["error"])
        v = out["problem"]
        if v is None:
            return None
        return {"cls": {"family": meta["family"], "initial": ini, "stage": v["stage"].split(" of participant")[0], "problem": v["problem"]},
                "expected": "both imports succeed; cache complete afterwards", "observed": v,
                "detail": {"interleaving": [[t[1], t[3]] for t in out["trace"]]}}
    if label.startswith("concurrent:"):
        v = concurrent_case(ops, contents, meta["i"])
    elif label.startswith("subprocess:"):
        lab = label.split(":", 1)[1]
        N = len(complete)
        files = {"missing": {}, "empty": {CACHE: b""}, "prefix:1": {CACHE: complete[:1]}, "prefix:N-1": {CACHE: complete[:N - 1]},
                 "prefix:N/2": {CACHE: complete[:N // 2]}}.get(lab)
        if files is None:
            files = {CACHE: complete[:int(lab.split("@")[1])]}
        v = subprocess_case(files)
    else:
        fam = meta["family"]
        if label == "missing":
            files = {}
        elif label == "empty":
            files = {CACHE: b""}
        elif fam == "truncated-cache":
            files = {CACHE: complete[:meta["cut"]]}
        elif fam == "truncated-shipped-cache":
            files = {CACHE: open(os.path.join(REPO, "dateparser", "data", CACHE), "rb").read()[:meta["cut"]]}
        elif fam in ("write-history", "write-history-same-pid"):
            files = apply_ops(ops, contents, meta["ops_done"])
        elif fam == "write-history-torn":
            files = apply_ops(ops, contents, meta["op"], meta["cut"])
        elif fam == "zero-filled-tail":
            files = {CACHE: complete[:meta["cut"]] + b"\0" * (len(complete) - meta["cut"])}
        else:
            files = {"all-zero": {CACHE: b"\0" * len(complete)}, "text": {CACHE: b"this is not a pickle\n"},
                     "pickle-empty-tuple": {CACHE: pickle.dumps((), protocol=5)}, "pickle-none": {CACHE: pickle.dumps(None, protocol=5)},
                     "pickle-3-tuple": {CACHE: pickle.dumps((1, 2, 3), protocol=5)}, "pickle-str": {CACHE: pickle.dumps("x" * 100, protocol=5)},
                     "complete": {CACHE: complete}}.get(label, {})
        v = recover({"files": files, "same_pid": meta.get("same_pid", False)})
    if v is None:
        return None
    return {"cls": {"family": meta["family"], "stage": v["stage"], "problem": v["problem"]}, "expected": "recovery", "observed": v}
