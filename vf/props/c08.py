"""C08 — missing day/month completed exactly as configured; period is truthful (E1)."""
from datetime import datetime

from .. import api, clock
from ..refmodel import cal
from ..space import Product

ID = "C08"
LEVEL = "exploration"
TECHNIQUE = "bounded-exhaustive enumeration of (year, month, reference date, preference pair, string form, parser) against an independent completion model"
RULE = ("cases = complete products / full sweeps (all 9999 x 12 year-months for the last-day rule) listed under "
        "subspaces; non-trivial = the library produced a datetime; distinct = distinct case tuples")
ASSUMPTIONS = [
    "custom-format cases use only the first/last day preferences (the 'current' day of that parser comes from the system clock, as the statement notes)",
    "partial dates are written without a clock time; the 'time' period is judged on full dates only",
]
CHUNK = 2000
PD = ["current", "first", "last"]
FORMS_MY = ["Month YYYY", "Mon YYYY", "MM/YYYY", "YYYY-MM", "Month, YYYY"]
# month-year / year-only strings that also carry a clock time: day and month are still filled per the preferences, the time is kept;
# which period such a string has is not settled by the statement (a time, but no day) and is not judged
FORMS_T = {"Month YYYY HH:MM": "Month YYYY", "MM/YYYY HH:MM": "MM/YYYY", "YYYY-MM HH:MM": "YYYY-MM", "Mon YYYY at 5pm": "Mon YYYY", "YYYY HH:MM": "YYYY"}
FORMS_FULL = ["D Month YYYY", "YYYY-MM-DD", "Mon D, YYYY", "YYYY-MM-DD HH:MM", "YYYY DDD"]


def _bases():
    out = [datetime(2024, 2, 29, 13, 14, 15), datetime(2023, 2, 28, 0, 0, 0), datetime(2010, 2, 10, 10, 10, 10)]
    for m in (1, 3, 5, 8, 12):
        for d in (28, 29, 30, 31):
            out.append(datetime(2023, m, d, 23, 59, 59))
    for m in (4, 6, 11):
        out.append(datetime(2024, m, 30, 1, 2, 3))
    out.append(datetime(2024, 1, 1, 0, 0, 0))
    return out


BASES = _bases()
ALL_BASES = [datetime(y, m, d, 12, 0, 0) for y in (2023, 2024) for m in range(1, 13) for d in range(1, cal.month_len(y, m) + 1)]
YEARS = [1, 4, 100, 400, 1582, 1900, 2000, 2023, 2024, 2100, 9996, 9999]


def render(form, y, m, d=None):
    if form in FORMS_T:
        return render(FORMS_T[form], y, m, d) + (" at 5pm" if form.endswith("5pm") else " 10:30")
    Y = "%04d" % y
    mon = cal.MONTHS[m - 1].capitalize() if m else None
    return {
        "Month YYYY": lambda: "%s %s" % (mon, Y), "Mon YYYY": lambda: "%s %s" % (mon[:3], Y),
        "MM/YYYY": lambda: "%02d/%s" % (m, Y), "YYYY-MM": lambda: "%s-%02d" % (Y, m),
        "Month, YYYY": lambda: "%s, %s" % (mon, Y), "YYYY": lambda: Y,
        "D Month YYYY": lambda: "%d %s %s" % (d, mon, Y), "YYYY-MM-DD": lambda: "%s-%02d-%02d" % (Y, m, d),
        "Mon D, YYYY": lambda: "%s %d, %s" % (mon[:3], d, Y),
        "YYYY DDD": lambda: "%s %03d" % (Y, cal.ordinal(y, m, d) - cal.ordinal(y, 1, 1) + 1), "YYYY-MM-DD HH:MM": lambda: "%s-%02d-%02d 10:30" % (Y, m, d),
    }[form]()


def spaces(tier, seed):
    T = tier == "thorough"
    sp = []
    sp.append(Product("last-day-all-year-months", {"y": range(1, 10000), "m": range(1, 13), "form": ["Month YYYY"],
                                                   "pd": ["last"], "pm": ["current"], "base": [0], "parser": ["absolute"]},
                      note="exhaustive for the last-day rule"))
    sp.append(Product("month-year-forms", {"y": YEARS, "m": range(1, 13), "form": FORMS_MY, "pd": PD, "pm": PD,
                                           "base": range(len(BASES)), "parser": ["absolute"]}))
    sp.append(Product("month-year-with-a-clock-time", {"y": [4, 1900, 2000, 2015, 2016, 2100] if not T else YEARS, "m": range(1, 13), "form": list(FORMS_T), "pd": PD, "pm": PD,
                                                       "base": [0, 1, 2, 4, 5, 6, 9, 18, 23, 26] if not T else range(len(BASES)), "parser": ["absolute"]}))
    sp.append(Product("month-only-with-a-year-preference", {"m": range(1, 13), "form": ["Month", "Mon", "Month HH:MM"], "pd": PD, "pdf": ["past", "future", "current_period"],
                                                            "xb": BASES + [datetime(2015, 6, 30, 12, 0), datetime(2017, 1, 31, 8, 0), datetime(2015, 3, 29, 0, 0), datetime(2100, 3, 31, 0, 0)]},
                      note="a month name alone: which year is chosen is C09's subject; here the filled-in day must fit the year and month actually returned"))
    sp.append(Product("year-only", {"y": YEARS + [1000, 1530, 2359, 1960, 99], "m": [0], "form": ["YYYY"], "pd": PD, "pm": PD,
                                    "base": range(len(BASES)), "parser": ["absolute"]}))
    sp.append(Product("full-dates-unaltered", {"y": [4, 1900, 2000, 2023, 2024], "m": range(1, 13), "d": [1, 15, 28, 29, 30, 31],
                                               "form": FORMS_FULL[:4], "pd": PD, "pm": PD, "base": [0, 1, 7, 23], "parser": ["absolute"],
                                               "rtp": [False, True]}))
    sp.append(Product("custom-formats", {"y": YEARS, "m": range(1, 13), "form": ["MM/YYYY", "Month YYYY", "Mon YYYY", "YYYY"],
                                         "pd": ["first", "last"], "pm": ["first", "last"], "base": [0, 9], "parser": ["custom"]}))
    sp.append(Product("custom-full-unaltered", {"y": [1900, 2024], "m": range(1, 13), "d": [1, 28, 29, 30, 31], "form": ["YYYY-MM-DD", "YYYY DDD"],
                                                "pd": ["first", "last"], "pm": ["first", "last"], "base": [0], "parser": ["custom"]}))
    sp.append(Product("custom-formats-current-day-follows-the-clock", {"y": [1900, 2015, 2016], "m": range(1, 13), "form": ["MM/YYYY", "Month YYYY"],
                                                                       "cd1": [1, 15, 29, 30, 31], "cd2": [1, 15, 29, 30, 31], "pm": ["first"]},
                      note="PREFER_DAY_OF_MONTH='current' under date_formats takes today's day from the clock: two calls in one case under a virtual clock showing two different days (cd1, then cd2)"))
    if T:
        sp.append(Product("all-bases", {"y": [1900, 2000, 2023, 2024], "m": range(1, 13), "form": ["Month YYYY", "MM/YYYY"], "pd": PD, "pm": PD,
                                        "xbase": ALL_BASES, "parser": ["absolute"]}))
        sp.append(Product("all-bases-year-only", {"y": [1900, 2000, 2023, 2024], "m": [0], "form": ["YYYY"], "pd": PD, "pm": PD,
                                                  "xbase": ALL_BASES, "parser": ["absolute"]}))
        sp.append(Product("current-clamp-all-years", {"y": range(1, 10000), "m": [2, 4], "form": ["Mon YYYY"], "pd": ["current"],
                                                      "pm": ["current"], "base": [0, 6, 7], "parser": ["absolute"]}))
    else:
        sp.append(Product("current-clamp-all-years", {"y": range(1, 10000), "m": [2], "form": ["Mon YYYY"], "pd": ["current"],
                                                      "pm": ["current"], "base": [0], "parser": ["absolute"]},
                          note="base Feb 29 2024 clamped into February of every year"))
    return sp


CFMT = {"MM/YYYY": "%m/%Y", "Month YYYY": "%B %Y", "Mon YYYY": "%b %Y", "YYYY": "%Y", "YYYY-MM-DD": "%Y-%m-%d", "YYYY DDD": "%Y %j"}


def expected(c, base):
    y, m, d = c["y"], c["m"], c.get("d")
    form = c["form"]
    if form in FORMS_T:
        hh, mi = (17, 0) if form.endswith("5pm") else (10, 30)
        base_form = FORMS_T[form]
        if base_form == "YYYY":
            m = {"first": 1, "last": 12, "current": base.month}[c["pm"]]
        last = cal.month_len(y, m)
        d = {"first": 1, "last": last, "current": min(base.day, last)}[c["pd"]]
        return datetime(y, m, d, hh, mi), None
    if form in FORMS_FULL:
        if form.endswith("HH:MM"):
            return datetime(y, m, d, 10, 30), ("time" if c.get("rtp") else "day")
        return datetime(y, m, d), "day"
    if form == "YYYY":
        m = {"first": 1, "last": 12, "current": base.month}[c["pm"]]
        per = "year"
    else:
        per = "month"
    last = cal.month_len(y, m)
    d = {"first": 1, "last": last, "current": min(base.day, last)}[c["pd"]]
    return datetime(y, m, d), per


def run_month_only(c):
    base = c["xb"]
    mon = cal.MONTHS[c["m"] - 1].capitalize()
    s = {"Month": mon, "Mon": mon[:3], "Month HH:MM": mon + " 10:30"}[c["form"]]
    st = {"RELATIVE_BASE": base, "PREFER_DAY_OF_MONTH": c["pd"], "PREFER_DATES_FROM": c["pdf"]}
    o = api.outcome_of(api.gdd, s, ["en"], None, None, st, None, False, False)
    if o[0] == "exc":
        kind, got = "exception:" + o[1], o[1:]
    else:
        r = o[1].date_obj
        got = (r, o[1].period)
        if r is None:
            kind = "none"
        else:
            last = cal.month_len(r.year, c["m"])
            d = {"first": 1, "last": last, "current": min(base.day, last)}[c["pd"]]
            tm = (10, 30) if c["form"].endswith("HH:MM") else (0, 0)
            if r.month != c["m"]:
                kind = "wrong-month"
            elif r.day != d:
                kind = "wrong-day-for-the-returned-year"
            elif (r.hour, r.minute, r.second) != tm + (0,):
                kind = "wrong-time"
            elif not c["form"].endswith("HH:MM") and o[1].period != "month":
                kind = "wrong-period"
            else:
                return "ok", True, None
    return "bad", True, {"cls": {"form": "month-only:" + c["form"], "parser": "absolute", "pd": c["pd"], "pm": c["pdf"], "kind": kind},
                         "expected": "month kept, day per PREFER_DAY_OF_MONTH in the returned year, period month", "observed": got,
                         "detail": {"string": s, "settings": st}}


def init_worker(tier, seed):
    clock.install()


def selfcheck():
    import dateparser
    clock.prove(dateparser.parse)


def run_clock_days(c):
    if c["cd1"] == c["cd2"]:
        return None
    s = render(c["form"], c["y"], c["m"])
    fm = [CFMT[c["form"]]]
    st = {"PREFER_DAY_OF_MONTH": "current", "PREFER_MONTH_OF_YEAR": c["pm"]}
    try:
        for i, cd in enumerate((c["cd1"], c["cd2"])):
            clock.freeze(datetime(2021, 3, cd, 12, 0))     # March: every tested clock day exists
            o = api.outcome_of(api.gdd, s, ["en"], None, None, st, fm, False, False)
            exp = (datetime(c["y"], c["m"], min(cd, cal.month_len(c["y"], c["m"]))), "month")
            got = (o[1].date_obj, o[1].period) if o[0] == "ok" else o[1:]
            if got != exp:
                return "bad", True, {"cls": {"form": c["form"], "parser": "custom", "pd": "current", "kind": "clock day not followed", "call": i},
                                     "expected": exp, "observed": got, "detail": {"string": s, "settings": st, "date_formats": fm, "clock_days_in_order": [c["cd1"], c["cd2"]]}}
    finally:
        clock.freeze(None)
    return "ok", True, None


def run_case(sub, c):
    if sub == "month-only-with-a-year-preference":
        return run_month_only(c)
    if sub == "custom-formats-current-day-follows-the-clock":
        return run_clock_days(c)
    base = c["xbase"] if "xbase" in c else BASES[c["base"]]
    if "d" in c and not cal.valid(c["y"], c["m"], c["d"]):
        return None
    s = render(c["form"], c["y"], c["m"], c.get("d"))
    exp = expected(c, base)
    st = {"RELATIVE_BASE": base, "PREFER_DAY_OF_MONTH": c["pd"], "PREFER_MONTH_OF_YEAR": c["pm"]}
    if c.get("rtp"):
        st["RETURN_TIME_AS_PERIOD"] = True
    fm = [CFMT[c["form"]]] if c["parser"] == "custom" else None
    o = api.outcome_of(api.gdd, s, ["en"], None, None, st, fm, False, False)
    if o[0] == "ok":
        dd = o[1]
        got = (dd.date_obj, dd.period)
        if (got == exp or (exp[1] is None and dd.date_obj == exp[0])) and dd.date_obj.tzinfo is None:
            return "ok", True, None
        kind = "none" if dd.date_obj is None else ("wrong-period" if dd.date_obj == exp[0] else "wrong-value")
    else:
        got = o[1:]
        kind = "exception:" + o[1]
    return "bad", True, {"cls": {"form": c["form"], "parser": c["parser"], "pd": c["pd"], "pm": c["pm"], "kind": kind},
                         "expected": exp, "observed": got, "detail": {"string": s, "settings": st, "date_formats": fm}}


def describe(sub, c):
    if "y" not in c:
        return dict(c)
    return {"string": render(c["form"], c["y"], c["m"], c.get("d"))}
