"""C18 — whitespace noise and the digit script never change what a string parses to (E1, metamorphic)."""
import unicodedata
from datetime import datetime

from .. import api, corpus
from ..space import Product, stripe

ID = "C18"
LEVEL = "exploration"
TECHNIQUE = "exhaustive enumeration of (string from corpus + generated dates) x the complete rewrite family (whitespace rewrites, trailing colon, every Unicode Nd block), judged by equality of the two parses"
RULE = ("strings = every harvested test-suite literal that parses (autodetection) and every generated per-language date "
        "(languages=[L]); rewrites = pad left/right/both, each single space -> double/tab/newline/NBSP/' \\t ', mixed by position "
        "parity, trailing colon, and substitution of all ASCII digits by each Unicode decimal-digit block; rewrites that leave the "
        "string unchanged are not counted; non-trivial = the original parsed to a datetime; distinct = distinct (string, rewrite)")
ASSUMPTIONS = [
    "the original string is the harvested/generated one; a rewrite is applied to the whole string",
    "strings that already contain tabs/newlines/NBSP or non-ASCII digits are rewritten like any other",
]
CHUNK = 300
BASE = datetime(2001, 2, 3, 4, 5, 6)


def nd_blocks():
    """Every run of ten consecutive code points that are the decimal digits 0..9 (category Nd), except ASCII."""
    out = []
    cp = 0
    while cp < 0x110000:
        ch = chr(cp)
        if unicodedata.category(ch) == "Nd" and unicodedata.digit(ch, -1) == 0:
            if all(unicodedata.category(chr(cp + i)) == "Nd" and unicodedata.digit(chr(cp + i), -1) == i for i in range(10)):
                if cp != 0x30:
                    out.append(cp)
                cp += 10
                continue
        cp += 1
    return out


BLOCKS = nd_blocks()
WS = ["pad-left", "pad-right", "pad-both", "double", "tab", "newline", "nbsp", "space-tab-space", "mixed", "colon"]


def rewrite(s, rw):
    if rw == "pad-left":
        return "  " + s
    if rw == "pad-right":
        return s + " \t"
    if rw == "pad-both":
        return "\n " + s + "  "
    if rw == "double":
        return s.replace(" ", "  ")
    if rw == "tab":
        return s.replace(" ", "\t")
    if rw == "newline":
        return s.replace(" ", "\n")
    if rw == "nbsp":
        return s.replace(" ", "\xa0")
    if rw == "space-tab-space":
        return s.replace(" ", " \t ")
    if rw == "mixed":
        alts = ["  ", "\t", "\xa0", " \n", "\xa0 "]
        out, k = [], 0
        for ch in s:
            if ch == " ":
                out.append(alts[k % len(alts)])
                k += 1
            else:
                out.append(ch)
        return "".join(out)
    if rw == "colon":
        return s + ":"
    if isinstance(rw, int):
        return "".join(chr(rw + ord(ch) - 48) if "0" <= ch <= "9" else ch for ch in s)
    raise KeyError(rw)


_S = None


def strings():
    global _S
    if _S is None:
        cor = [("corpus", None, s) for s, loc in corpus.corpus()]
        gen = [("gen", g["lang"], g["string"]) for g in corpus.generated()]
        _S = (cor, gen)
    return _S


def spaces(tier, seed):
    cor, gen = strings()
    T = tier == "thorough"
    blocks_gen = BLOCKS if T else stripe(BLOCKS, seed, max(1, len(BLOCKS) // 8))
    return [
        Product("corpus-whitespace", {"src": ["corpus"], "s": range(len(cor)), "rw": WS}),
        Product("corpus-digit-blocks", {"src": ["corpus"], "s": range(len(cor)), "rw": BLOCKS if T else stripe(BLOCKS, seed, 3)},
                note="%d Unicode Nd blocks; quick: the seed's third of them, thorough: all" % len(BLOCKS)),
        Product("generated-whitespace", {"src": ["gen"], "s": range(len(gen)), "rw": WS}),
        Product("generated-digit-blocks", {"src": ["gen"], "s": range(len(gen)), "rw": blocks_gen},
                note="quick: the seed's stripe of blocks; thorough: all"),
    ]


_memo = {}


def _p(s, lang):
    o = api.outcome_of(api.gdd, s, [lang] if lang else None, None, None, {"RELATIVE_BASE": BASE})
    if o[0] == "exc":
        return ("exc", o[1], o[3])
    return (o[1].date_obj, o[1].period, o[1].locale)


def run_case(sub, c):
    cor, gen = strings()
    src, lang, s = (cor if c["src"] == "corpus" else gen)[c["s"]]
    s2 = rewrite(s, c["rw"])
    if s2 == s:
        return None
    k = (c["src"], c["s"])
    if k not in _memo:
        if len(_memo) > 64:
            _memo.clear()
        _memo[k] = _p(s, lang)
    a = _memo[k]
    b = _p(s2, lang)
    nontriv = isinstance(a[0], datetime)
    same = a[:2] == b[:2] and (lang is None or a[2] == b[2])
    if same:
        return ("same-value" if nontriv else "same-none"), nontriv, None
    kind = "digits" if isinstance(c["rw"], int) else c["rw"]
    what = "exception" if b[0] == "exc" else ("value-to-none" if b[0] is None else ("none-to-value" if a[0] is None else "different-value"))
    return "bad", True, {"cls": {"form": src, "rewrite": kind, "what": what},
                         "expected": a, "observed": b,
                         "detail": {"string": s, "rewritten": s2, "language": lang,
                                    "block": ("U+%04X" % c["rw"]) if isinstance(c["rw"], int) else None}}


def describe(sub, c):
    cor, gen = strings()
    src, lang, s = (cor if c["src"] == "corpus" else gen)[c["s"]]
    return {"string": s, "rewritten": rewrite(s, c["rw"]), "language": lang}
