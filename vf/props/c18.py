"""C18 — whitespace noise and the digit script never change what a string parses to (E1, metamorphic)."""
import unicodedata
from datetime import datetime

from .. import api, corpus
from ..space import Product, stripe

ID = "C18"
LEVEL = "exploration"
TECHNIQUE = "exhaustive enumeration of (string from corpus + generated dates) x the complete rewrite family (whitespace rewrites, trailing colon, every Unicode Nd block), judged by equality of the two parses"
RULE = ("strings = every harvested test-suite literal that parses (autodetection) and every generated per-language date "
        "(languages=[L]); rewrites = pad left/right/both, each single space -> double/tab/newline/NBSP/' \\t ', mixed by position "
        "parity, trailing colon, and substitution of all ASCII digits by each Unicode decimal-digit block; rewrites that leave the "
        "string unchanged are not counted; non-trivial = the original parsed to a datetime; distinct = distinct (string, rewrite)")
ASSUMPTIONS = [
    "the original string is the harvested/generated one; a rewrite is applied to the whole string",
    "strings that already contain tabs/newlines/NBSP or non-ASCII digits are rewritten like any other",
]
CHUNK = 300
BASE = datetime(2001, 2, 3, 4, 5, 6)


def nd_blocks():
    """Every run of ten consecutive code points that are the decimal digits 0..9 (category Nd), except ASCII."""
    out = []
    cp = 0
    while cp < 0x110000:
        ch = chr(cp)
        if unicodedata.category(ch) == "Nd" and unicodedata.digit(ch, -1) == 0:
            if all(unicodedata.category(chr(cp + i)) == "Nd" and unicodedata.digit(chr(cp + i), -1) == i for i in range(10)):
                if cp != 0x30:
                    out.append(cp)
                cp += 10
                continue
        cp += 1
    return out


BLOCKS = nd_blocks()
WS = ["pad-left", "pad-right", "pad-both", "double", "tab", "newline", "nbsp", "space-tab-space", "mixed", "colon", "space-colon", "colon-space",
      "tab-colon", "nbsp-colon-nbsp", "pad-both-colon"]
# one string per special case of the sanitizer (", в", "г.", the Croatian "d. m. yyyy. u", "on:", "»", "·", a period after letters,
# apostrophe look-alikes), and numeric strings that are also epoch numbers, with and without date_formats
SPECIAL = [
    ("ru", "12 января 2020, в 10:30", None), ("bg", "12 януари 2020, в 10:30", None), ("ru", "12 января 2020 г. 10:30", None),
    ("ru", "12 января 2020 г., в 10:30", None), ("hr", "12. 1. 2020. u 10:30", None), ("hr", "12. 01. 2020.", None), ("en", "posted on: 12 January 2020", None),
    ("en", "12 Jan. 2020 10:30", None), ("fr", "12 janv. 2020", None), ("en", "» 12 January 2020", None), ("en", "12 January 2020 · 10:30", None),
    ("en", "Jan 12 ’20", None), ("en", "12 January 2020 10:30 a.m.", None), ("de", "12. Januar 2020 um 10:30 Uhr", None),
    ("es", "5 de enero de 2020 10:30 p. m.", None), ("es", "5 de enero de 2020 10:30 a. m.", None), ("en", "12 January 2020 10:30 p. m.", None),
    ("pt", "5 de janeiro de 2020 \u00e0s 10:30", None), ("it", "5 gennaio 2020 alle ore 10:30", None), ("nl", "5 januari 2020 om 10:30 uur", None),
    ("en", "1570308760", None), ("en", "1570308760123", None), ("en", "2020010212", ["%Y%m%d%H"]), ("en", "02-03-04", ["%y-%m-%d"]),
    ("en", "2014-12-31 10:30", ["%Y-%m-%d %H:%M"]), ("en", "31 December 2014", ["%d %B %Y"]), ("fr", "31 décembre 2014", ["%d %B %Y"]),
    ("en", "10:30", ["%H:%M"]), ("en", "1000000000", ["%H%M%S%d%m"]), ("en", "12/2014", ["%m/%Y"]),
]


def rewrite(s, rw):
    if rw == "pad-left":
        return "  " + s
    if rw == "pad-right":
        return s + " \t"
    if rw == "pad-both":
        return "\n " + s + "  "
    if rw == "double":
        return s.replace(" ", "  ")
    if rw == "tab":
        return s.replace(" ", "\t")
    if rw == "newline":
        return s.replace(" ", "\n")
    if rw == "nbsp":
        return s.replace(" ", "\xa0")
    if rw == "space-tab-space":
        return s.replace(" ", " \t ")
    if rw == "mixed":
        alts = ["  ", "\t", "\xa0", " \n", "\xa0 "]
        out, k = [], 0
        for ch in s:
            if ch == " ":
                out.append(alts[k % len(alts)])
                k += 1
            else:
                out.append(ch)
        return "".join(out)
    if rw == "colon":
        return s + ":"
    if rw == "space-colon":
        return s + " :"
    if rw == "colon-space":
        return s + ": "
    if rw == "tab-colon":
        return s + "\t:"
    if rw == "nbsp-colon-nbsp":
        return s + "\xa0:\xa0"
    if rw == "pad-both-colon":
        return " \n" + s + "  :  "
    if isinstance(rw, int):
        return "".join(chr(rw + ord(ch) - 48) if "0" <= ch <= "9" else ch for ch in s)
    raise KeyError(rw)


_S = None


def strings():
    global _S
    if _S is None:
        cor = [("corpus", None, s) for s, loc in corpus.corpus()]
        gen = [("gen", g["lang"], g["string"]) for g in corpus.generated()]
        _S = (cor, gen)
    return _S


def spaces(tier, seed):
    cor, gen = strings()
    T = tier == "thorough"
    blocks_gen = BLOCKS if T else stripe(BLOCKS, seed, max(1, len(BLOCKS) // 8))
    return [
        Product("corpus-whitespace", {"src": ["corpus"], "s": range(len(cor)), "rw": WS}),
        Product("corpus-digit-blocks", {"src": ["corpus"], "s": range(len(cor)), "rw": BLOCKS if T else stripe(BLOCKS, seed, 3)},
                note="%d Unicode Nd blocks; quick: the seed's third of them, thorough: all" % len(BLOCKS)),
        Product("generated-whitespace", {"src": ["gen"], "s": range(len(gen)), "rw": WS}),
        Product("generated-digit-blocks", {"src": ["gen"], "s": range(len(gen)), "rw": blocks_gen},
                note="quick: the seed's stripe of blocks; thorough: all"),
        Product("sanitizer-special-cases", {"src": ["special"], "s": range(len(SPECIAL)), "rw": WS + BLOCKS},
                note="one string per special case of the sanitizer, epoch-like numbers, and strings parsed through date_formats"),
    ]


_memo = {}


def _p(s, lang, fmts=None):
    o = api.outcome_of(api.gdd, s, [lang] if lang else None, None, None, {"RELATIVE_BASE": BASE}, fmts)
    if o[0] == "exc":
        return ("exc", o[1], o[3])
    return (o[1].date_obj, o[1].period, o[1].locale)


def run_case(sub, c):
    cor, gen = strings()
    fmts = None
    if c["src"] == "special":
        lang, s, fmts = SPECIAL[c["s"]]
        src = "special"
    else:
        src, lang, s = (cor if c["src"] == "corpus" else gen)[c["s"]]
    s2 = rewrite(s, c["rw"])
    if s2 == s:
        return None
    k = (c["src"], c["s"])
    if k not in _memo:
        if len(_memo) > 64:
            _memo.clear()
        _memo[k] = _p(s, lang, fmts)
    a = _memo[k]
    b = _p(s2, lang, fmts)
    nontriv = isinstance(a[0], datetime)
    # the reported locale is compared only where it is fixed by the selection; through date_formats a match on the raw string reports no locale
    same = a[:2] == b[:2] and (lang is None or fmts is not None or a[2] == b[2])
    if same:
        return ("same-value" if nontriv else "same-none"), nontriv, None
    kind = "digits" if isinstance(c["rw"], int) else c["rw"]
    what = "exception" if b[0] == "exc" else ("value-to-none" if b[0] is None else ("none-to-value" if a[0] is None else "different-value"))
    cls = {"form": src, "rewrite": kind, "what": what}
    if src == "special":
        cls["string"] = s
        cls["date_formats"] = bool(fmts)
    return "bad", True, {"cls": cls,
                         "expected": a, "observed": b,
                         "detail": {"string": s, "rewritten": s2, "language": lang, "date_formats": fmts,
                                    "block": ("U+%04X" % c["rw"]) if isinstance(c["rw"], int) else None}}


def describe(sub, c):
    cor, gen = strings()
    if c["src"] == "special":
        lang, s, _ = SPECIAL[c["s"]]
        return {"string": s, "rewritten": rewrite(s, c["rw"]), "language": lang}
    src, lang, s = (cor if c["src"] == "corpus" else gen)[c["s"]]
    return {"string": s, "rewritten": rewrite(s, c["rw"]), "language": lang}
