"""C02 — parse is total: a datetime or None, documented exceptions only (E1)."""
from datetime import datetime, timedelta, timezone
from itertools import product

import pytz

from .. import api, vocab
from ..space import Listed, Product

ID = "C02"
LEVEL = "exploration"
TECHNIQUE = "bounded-exhaustive enumeration of two string grammars (slot grammar, free token words up to depth 3/4) x a configuration menu, oracle = the error contract"
RULE = ("strings = every word of the slot grammar [prefix][date][sep][time][sep][zone][suffix] and every sequence of "
        "<= k tokens over the atomic alphabet, each under every configuration of the listed menu; plus the invalid-settings "
        "family x strings; non-trivial = the call returned a datetime (or, for the invalid-settings family, raised); "
        "distinct = distinct (string, configuration) pairs")
ASSUMPTIONS = [
    "bound is on token depth over the listed alphabets, not on string length; arbitrary Unicode beyond the alphabets is not explored",
    "violation classes are keyed by (exception type, innermost dateparser frame)",
]
CHUNK = 1500
TASKS_PER_CHILD = 200

PREFIX = ["", "(", "on: ", "Mon, ", "  "]
DST_STRINGS = ["00:30", "01:30", "1:30 am", "01:59:59", "02:00", "02:30", "2:30 AM", "03:00", "23:30", "01:45 EST", "yesterday 01:30", "Sunday 01:30",
               "tomorrow 02:30", "7 November 01:30", "14 March 2:30", "28 March 01:30", "31 October 01:30", "in 1 hour", "2 hours ago", "1:15",
               "24:00", "00:00", "noon", "midnight"]
DATES = ["", "0001-01-01", "9999-12-31", "31/12/9999", "01/01/0001", "29 February 2023", "Feb 30", "12", "99", "0", "00000000",
         "20140101", "010199", "99999999", "201401011259", "20140101125959", "1000000000", "9999999999", "9999999999999",
         "9999999999999999", "1 January", "December 9999", "2014", "13/13/2013", "Tuesday", "31 Dec", "12.12.12", "1-1-1"]
TIMES = ["", "00:00", "23:59", "24:00", "12 am", "13 pm", "23:59:60", "1.2.3", "10:30:45.123456", "0:0", "12:30 PM", "99:99"]
ZONES = ["", "UTC", "EST", "+1400", "-1200", "-0500", "Z", "UTC+14:00", "GMT-12", "+0545", "(CST)", "UTC−12:00", "zzz", "+9999"]
RELS = ["in 9999 years", "99999999 days ago", "1.5 months ago", "0 seconds ago", "in 9999 decades", "999999999999 hours ago",
        "1 year 13 months ago", "in 1,5 hours", "yesterday 25:00", "5000 weeks ago", "now", "in 2.5 years"]
SEPS = [" ", "T", ", "]
SUFFIX = ["", ":", ".", ")", " г."]

SIGMA = ["0", "1", "12", "13", "31", "32", "99", "2014", "9999", "00", "-", "/", ".", ":", ",", "+", " ", "T", "am", "pm",
         "january", "mon", "hour", "ago", "in", "UTC", "Z", "(", ")", "'", " ", "٣", "́", "今天", "%", "\\",
         "", "EST", "1000000000", "year", "next", "1.5", "’", "of", "t", "00:00", "‏", "\n"]

BASES = {
    "none": None, "min": datetime.min, "max": datetime.max, "epoch": datetime(1970, 1, 1), "leap": datetime(2024, 2, 29, 23, 59, 59, 999999),
    "aware-utc": datetime(2020, 6, 15, 12, 0, tzinfo=timezone.utc), "aware-max": datetime.max.replace(tzinfo=pytz.utc),
    "aware+14": datetime(2020, 1, 1, 0, 0, tzinfo=timezone(timedelta(hours=14))), "aware-min": datetime.min.replace(tzinfo=pytz.utc),
}
TZV = [None, "UTC", "local", "+1400", "-1200", "America/New_York", "Asia/Kathmandu", "EST"]


def _configs():
    out = []

    def add(name, settings=None, **kw):
        out.append((name, dict(kw, settings=settings)))

    add("default-en", None, languages=["en"])
    for k, vals in [("DATE_ORDER", ["DMY", "DYM", "MDY", "MYD", "YDM", "YMD"]), ("PREFER_LOCALE_DATE_ORDER", [False]),
                    ("PREFER_MONTH_OF_YEAR", ["first", "last"]), ("PREFER_DAY_OF_MONTH", ["first", "last"]),
                    ("PREFER_DATES_FROM", ["past", "future"]), ("STRICT_PARSING", [True]),
                    ("REQUIRE_PARTS", [["day"], ["month", "year"], ["day", "month", "year"]]), ("SKIP_TOKENS", [[], ["t", "of"]]),
                    ("NORMALIZE", [False]), ("RETURN_TIME_AS_PERIOD", [True]), ("RETURN_AS_TIMEZONE_AWARE", [True, False]),
                    ("DEFAULT_LANGUAGES", [["fr"]]), ("LANGUAGE_DETECTION_CONFIDENCE_THRESHOLD", [0.0, 1.0]),
                    ("CACHE_SIZE_LIMIT", [0, 1]),
                    ("PARSERS", [["timestamp"], ["negative-timestamp"], ["relative-time"], ["custom-formats"], ["absolute-time"],
                                 ["no-spaces-time"], ["timestamp", "negative-timestamp", "relative-time", "custom-formats",
                                                      "absolute-time", "no-spaces-time"]])]:
        for v in vals:
            add("%s=%s" % (k, v), {k: v}, languages=["en"])
    for tzv in TZV[1:]:
        add("TIMEZONE=%s" % tzv, {"TIMEZONE": tzv}, languages=["en"])
        add("TO_TIMEZONE=%s" % tzv, {"TO_TIMEZONE": tzv}, languages=["en"]) if tzv != "local" else None
    for bn in BASES:
        if bn != "none":
            add("BASE=%s" % bn, {"RELATIVE_BASE": BASES[bn]}, languages=["en"])
    # pairs among the timezone/base ones
    for bn in ("min", "max", "aware-max", "aware-min", "aware+14"):
        for tzv in ("UTC", "+1400", "-1200", "America/New_York"):
            add("BASE=%s,TIMEZONE=%s" % (bn, tzv), {"RELATIVE_BASE": BASES[bn], "TIMEZONE": tzv}, languages=["en"])
            add("BASE=%s,TO_TIMEZONE=%s" % (bn, tzv), {"RELATIVE_BASE": BASES[bn], "TO_TIMEZONE": tzv}, languages=["en"])
    for a, b in (("+1400", "-1200"), ("-1200", "+1400"), ("America/New_York", "Asia/Kathmandu"), ("UTC", "EST")):
        add("TIMEZONE=%s,TO_TIMEZONE=%s" % (a, b), {"TIMEZONE": a, "TO_TIMEZONE": b, "RETURN_AS_TIMEZONE_AWARE": True}, languages=["en"])
    add("langs=fr,en", None, languages=["fr", "en"])
    add("locales=fr-PF", None, locales=["fr-PF"])
    add("langs=en,fr region=PF", None, languages=["en", "fr"], region="PF")
    add("langs=zh,ja,yue", None, languages=["zh", "ja", "yue"])
    add("langs=ar,fa,he", None, languages=["ar", "fa", "he"])
    for f in (["%Y-%m-%d"], ["%d %B"], ["%H:%M"], ["%d/%m/%Y %H:%M:%S.%f", "%y%m%d"]):
        add("formats=%s" % f, None, languages=["en"], date_formats=f)
    global N_BASE
    N_BASE = len(out)
    for f in (["%d %b %Y"], ["%Y-%m-%d %H:%M"], ["%d/%m/%Y", "%d %b %Y"]):
        for st in ({"TIMEZONE": "Asia/Tokyo", "TO_TIMEZONE": "UTC"}, {"TIMEZONE": "-1200", "TO_TIMEZONE": "+1400"},
                   {"TIMEZONE": "America/New_York"}, {"TO_TIMEZONE": "Pacific/Kiritimati", "RETURN_AS_TIMEZONE_AWARE": True}):
            add("formats=%s,%s" % (f, sorted(st.items())), st, languages=["en"], date_formats=f)
    # partial formats (day and/or month missing) with an extreme, possibly zone-aware, reference time and a TIMEZONE / TO_TIMEZONE far from it
    for f in (["%B %Y"], ["%Y"], ["%d.%Y"], ["%H:%M"], ["%B"], ["%d %B"]):
        for bn in ("min", "max", "aware-max", "aware-min", "aware+14"):
            for st in ({"TIMEZONE": "Asia/Tokyo"}, {"TIMEZONE": "America/New_York"}, {"TIMEZONE": "+1400", "TO_TIMEZONE": "-1200"}, {"TO_TIMEZONE": "Pacific/Kiritimati"},
                       {"PREFER_DAY_OF_MONTH": "last", "PREFER_MONTH_OF_YEAR": "last", "TIMEZONE": "-1200"}, {}):
                add("formats=%s,BASE=%s,%s" % (f, bn, sorted(st.items())), dict(st, RELATIVE_BASE=BASES[bn]), languages=["en"], date_formats=f)
    for zone, days in (("America/New_York", [(2021, 3, 14), (2021, 11, 7)]), ("Europe/London", [(2021, 3, 28), (2021, 10, 31)]),
                       ("Australia/Lord_Howe", [(2021, 4, 4), (2021, 10, 3)]), ("America/Sao_Paulo", [(2018, 11, 4), (2019, 2, 16)])):
        for (y, m, d) in days:
            for hh in (0, 12, 23):
                for pdf in ("past", "future", "current_period"):
                    add("DST %s base=%04d-%02d-%02d %02d:00 %s" % (zone, y, m, d, hh, pdf),
                        {"TIMEZONE": zone, "RELATIVE_BASE": datetime(y, m, d, hh, 0), "PREFER_DATES_FROM": pdf}, languages=["en"])
    return out


N_BASE = 0
CONFIGS = _configs()
CORE_CFG = ["default-en", "BASE=max", "BASE=min", "TIMEZONE=UTC", "TO_TIMEZONE=-1200", "BASE=aware-max,TIMEZONE=+1400",
            "PARSERS=['timestamp', 'negative-timestamp', 'relative-time', 'custom-formats', 'absolute-time', 'no-spaces-time']",
            "TIMEZONE=+1400,TO_TIMEZONE=-1200"]
CFG_INDEX = {n: i for i, (n, _) in enumerate(CONFIGS)}

INVALID_SETTINGS = [
    {"UNKNOWN_KEY": 1}, {"date_order": "DMY"}, {"DATE_ORDER": "XYZ"}, {"DATE_ORDER": 1}, {"TIMEZONE": 5}, {"TO_TIMEZONE": None},
    {"RETURN_AS_TIMEZONE_AWARE": "yes"}, {"PREFER_MONTH_OF_YEAR": "middle"}, {"PREFER_DAY_OF_MONTH": 1}, {"PREFER_DATES_FROM": "present"},
    {"RELATIVE_BASE": "2020-01-01"}, {"RELATIVE_BASE": 0}, {"STRICT_PARSING": "True"}, {"REQUIRE_PARTS": ["week"]},
    {"REQUIRE_PARTS": ["day", "day"]}, {"REQUIRE_PARTS": "day"}, {"SKIP_TOKENS": "t"}, {"NORMALIZE": 1}, {"RETURN_TIME_AS_PERIOD": "x"},
    {"PARSERS": ["absolute"]}, {"PARSERS": ["timestamp", "timestamp"]}, {"PARSERS": "timestamp"}, {"FUZZY": "yes"},
    {"PREFER_LOCALE_DATE_ORDER": "no"}, {"DEFAULT_LANGUAGES": ["xx"]}, {"DEFAULT_LANGUAGES": ["en", "en"]}, {"DEFAULT_LANGUAGES": "en"},
    {"LANGUAGE_DETECTION_CONFIDENCE_THRESHOLD": 1.5}, {"LANGUAGE_DETECTION_CONFIDENCE_THRESHOLD": -0.1},
    {"LANGUAGE_DETECTION_CONFIDENCE_THRESHOLD": "0.5"}, {"CACHE_SIZE_LIMIT": "10"}, {"CACHE_SIZE_LIMIT": 1.5},
    {"DATE_ORDER": "DMY", "BOGUS": True},
    {"LANGUAGE_DETECTION_CONFIDENCE_THRESHOLD": float("nan")}, {"LANGUAGE_DETECTION_CONFIDENCE_THRESHOLD": float("inf")},
    {"LANGUAGE_DETECTION_CONFIDENCE_THRESHOLD": float("-inf")}, {"LANGUAGE_DETECTION_CONFIDENCE_THRESHOLD": True}, {"CACHE_SIZE_LIMIT": float("nan")},
    {"DATE_ORDER": "dmy"}, {"DATE_ORDER": "DDM"}, {"PREFER_DATES_FROM": "PAST"}, {"DEFAULT_LANGUAGES": [1]},
    {"TIMEZONE": "Mars/Olympus"}, {"TIMEZONE": ""}, {"TO_TIMEZONE": "nope"}, {"TIMEZONE": "UTC+25:00"},
]
# (valid dict, wrongly typed dict whose values print / compare / hash like the valid ones): "an invalid setting is rejected
# whatever the date string is" must also hold after the valid twin (or the invalid dict itself, or any other valid dict)
# has been seen by the same process - two- and three-call histories carried inside the case
TWINS = [
    ({"STRICT_PARSING": True}, {"STRICT_PARSING": "True"}), ({"STRICT_PARSING": True}, {"STRICT_PARSING": 1}),
    ({"RELATIVE_BASE": datetime(2020, 1, 1)}, {"RELATIVE_BASE": "2020-01-01 00:00:00"}),
    ({"REQUIRE_PARTS": ["day"]}, {"REQUIRE_PARTS": "['day']"}), ({"REQUIRE_PARTS": ["day"]}, {"REQUIRE_PARTS": ("day",)}),
    ({"CACHE_SIZE_LIMIT": 500}, {"CACHE_SIZE_LIMIT": "500"}), ({"CACHE_SIZE_LIMIT": 500}, {"CACHE_SIZE_LIMIT": 500.0}),
    ({"NORMALIZE": False}, {"NORMALIZE": "False"}), ({"NORMALIZE": False}, {"NORMALIZE": 0}),
    ({"LANGUAGE_DETECTION_CONFIDENCE_THRESHOLD": 0.5}, {"LANGUAGE_DETECTION_CONFIDENCE_THRESHOLD": "0.5"}),
    ({"PARSERS": ["timestamp", "absolute-time"]}, {"PARSERS": "['timestamp', 'absolute-time']"}),
    ({"PARSERS": ["timestamp", "absolute-time"]}, {"PARSERS": ("timestamp", "absolute-time")}),
    ({"DEFAULT_LANGUAGES": ["en"]}, {"DEFAULT_LANGUAGES": "['en']"}), ({"SKIP_TOKENS": ["t"]}, {"SKIP_TOKENS": "['t']"}),
    ({"RETURN_AS_TIMEZONE_AWARE": True}, {"RETURN_AS_TIMEZONE_AWARE": "True"}), ({"FUZZY": True}, {"FUZZY": "True"}),
    ({"PREFER_LOCALE_DATE_ORDER": False}, {"PREFER_LOCALE_DATE_ORDER": "False"}),
    ({"RETURN_TIME_AS_PERIOD": True}, {"RETURN_TIME_AS_PERIOD": "True"}),
    ({"DATE_ORDER": "DMY", "STRICT_PARSING": True}, {"STRICT_PARSING": "True", "DATE_ORDER": "DMY"}),
    ({"TIMEZONE": "UTC"}, {"TIMEZONE": b"UTC"}), ({"PREFER_DATES_FROM": "past"}, {"PREFER_DATES_FROM": b"past"}),
]
WARMUPS = ["twin", "twin-other-api", "itself", "twin-then-itself", "other-valid", "twin-search"]
INVALID_STRINGS = ["", " ", "2014-01-01", "yesterday", "zzzz", "12", "1000000000", "in 2 days", "今天", "10:30", "(", "January",
                   "31/12/9999 23:59 +1400", "not a date at all", "2 hours ago EST", "\x00", "0", "Feb 30", "99999999999999999999", "T"]
BAD_ARGS = [
    {"languages": ["xx"]}, {"languages": ["en", "klingon"]}, {"locales": ["en-XX"]}, {"locales": ["fr-PF", "fr-BE"]},
    {"locales": ["xx-YY"]}, {"languages": "en"}, {"locales": "en-GB"}, {"region": 5}, {"languages": ["en"], "date_formats": "%Y"},
    {"settings": "DMY"}, {"settings": ["a"]}, {"settings": 5},
]
BAD_ARG_EXPECT = ["ValueError", "ValueError", "ValueError", "ValueError", "ValueError", "TypeError", "TypeError", "TypeError", "TypeError",
                  "TypeError", "TypeError", "TypeError"]
NONSTR = [None, 5, 5.5, b"2014", ["2014"], datetime(2014, 1, 1)]


def lang_tokens():
    """One-token strings from every language's own vocabulary."""
    out = []
    for lang in vocab.languages():
        info = vocab.locale_info(lang)
        toks = []
        for k in ("january", "monday", "hour", "ago", "in"):
            v = info.get(k) or []
            if v:
                toks.append(v[0])
        for k, vals in (info.get("relative-type") or {}).items():
            toks.extend(vals)
        for t in toks:
            out.append({"lang": lang, "s": t})
    return out


def spaces(tier, seed):
    T = tier == "thorough"
    sp = []
    slot_small = {"prefix": ["", "(", "on: "] if T else ["", "("], "date": DATES if T else DATES[:20], "sep1": [" ", "T"], "time": TIMES if T else TIMES[:9],
                  "sep2": [" "], "zone": ZONES if T else ZONES[:10], "suffix": SUFFIX if T else ["", ":", "."]}
    sp.append(Product("slot-grammar", dict(slot_small, cfg=[CFG_INDEX[n] for n in CORE_CFG] if not T else
                                           [CFG_INDEX[n] for n in CORE_CFG] + [CFG_INDEX["BASE=aware-min"], CFG_INDEX["DATE_ORDER=YDM"],
                                                                                CFG_INDEX["STRICT_PARSING=True"], CFG_INDEX["langs=fr,en"]])))
    sp.append(Product("relative-slot", {"prefix": ["", "("] if T else [""], "rel": RELS, "time": ["", "at 10:45", "25:00", "12 am"],
                                        "zone": ZONES[:8] if T else ZONES[:4], "suffix": ["", "."], "cfg": range(N_BASE)}))
    k = 4 if T else 3
    words = {"t%d" % i: SIGMA for i in range(k)}
    sp.append(Product("free-words", dict(words, cfg=[CFG_INDEX[n] for n in CORE_CFG[:3]]),
                      note="all sequences of %d tokens (the empty token gives the shorter ones) over a %d-token alphabet" % (k, len(SIGMA))))
    sp.append(Product("all-configs", {"prefix": ["", "("] if T else [""], "date": DATES, "sep1": [" "], "time": TIMES[:6], "sep2": [" "],
                                      "zone": ["", "UTC", "+1400", "-1200", "EST"], "suffix": ["", ":"] if T else [""],
                                      "cfg": range(N_BASE)}))
    dst_cfgs = [i for i, (n, _) in enumerate(CONFIGS) if n.startswith("DST ")]
    sp.append(Product("dst-transition-days", {"dst": DST_STRINGS, "cfg": dst_cfgs},
                      note="clock times around the gap/overlap hour with a DST zone as TIMEZONE and the reference on a transition day"))
    fmt_cfgs = [i for i, (n, _) in enumerate(CONFIGS) if n.startswith("formats=")]
    sp.append(Product("formats-at-range-ends", {"fs": ["1 Jan 0001", "31 Dec 9999", "0001-01-01 00:00", "9999-12-31 23:59", "01/01/0001", "31/12/9999",
                                                       "1 Jan 0001 00:00", "29 Feb 2023", "31 Dec 9999 23:59 +1400", "March 2015", "December 9999", "January 0001",
                                                       "2015", "9999", "0001", "31.9999", "01.0001", "10:30", "23:59", "March", "December", "31 December", "1 January"],
                                                "cfg": fmt_cfgs}))
    sp.append(Listed("language-vocabulary", lang_tokens()))
    sp.append(Product("autodetect", {"prefix": [""], "date": DATES, "sep1": [" "], "time": ["", "23:59", "1.2.3"], "sep2": [" "],
                                     "zone": ["", "+1400", "EST"], "suffix": ["", "."], "cfg": [-1]},
                      note="no languages given (all 205 tried)"))
    sp.append(Product("invalid-settings", {"bad": range(len(INVALID_SETTINGS)), "s": INVALID_STRINGS, "api": ["parse", "ddp"]}))
    sp.append(Product("invalid-after-valid", {"twin": range(len(TWINS)), "warm": WARMUPS, "s": INVALID_STRINGS[:10], "api": ["parse", "ddp"]},
                      note="histories of 2-3 calls inside one case: a valid dict (or the invalid one itself) first, then the wrongly typed twin"))
    sp.append(Product("bad-arguments", {"arg": range(len(BAD_ARGS)), "s": INVALID_STRINGS[:8]}))
    sp.append(Product("non-str-input", {"v": range(len(NONSTR)), "api": ["parse", "ddp"]}))
    return sp


def build(c):
    if "dst" in c:
        return c["dst"]
    if "fs" in c:
        return c["fs"]
    if "rel" in c:
        s = c["prefix"] + c["rel"] + (" " + c["time"] if c["time"] else "") + (" " + c["zone"] if c["zone"] else "") + c["suffix"]
    elif "t0" in c:
        s = "".join(c[k] if c[k] in ("-", "/", ".", ":", ",", "T", " ", "\n", "") else (c[k] + " ") for k in sorted(c) if k != "cfg")
    else:
        s = c["prefix"] + c["date"]
        if c["time"]:
            s += c["sep1"] + c["time"]
        if c["zone"]:
            s += c["sep2"] + c["zone"]
        s += c["suffix"]
    return s


PERIODS = ("time", "day", "week", "month", "year")


def judge_ok(dd):
    if type(dd).__name__ != "DateData":
        return "not a DateData"
    if dd.period not in PERIODS:
        return "period %r" % (dd.period,)
    if dd.date_obj is None:
        if dd.locale is not None:
            return "locale set without a date"
    elif not isinstance(dd.date_obj, datetime):
        return "date_obj is %s" % type(dd.date_obj).__name__
    return None


def run_case(sub, c):
    import dateparser
    if sub == "invalid-settings":
        st = INVALID_SETTINGS[c["bad"]]
        if c["api"] == "parse":
            o = api.outcome_of(dateparser.parse, c["s"], languages=["en"], settings=dict(st))
        else:
            o = api.outcome_of(lambda: api.DateDataParser(languages=["en"], settings=dict(st)).get_date_data(c["s"]))
        if o[0] == "exc" and (o[1] == "SettingValidationError" or (o[1] == "TypeError" and None in st.values())):
            # a None value is rejected with TypeError (pinned by tests/test_settings.py): a wrongly typed argument
            return "rejected", True, None
        cls = {"form": "invalid-settings", "setting": sorted(st)[0], "kind": "accepted" if o[0] == "ok" else o[1]}
        if sorted(st)[0] in ("TIMEZONE", "TO_TIMEZONE") and isinstance(st[sorted(st)[0]], str):
            cls["value"] = "unknown zone name"
        return "bad", True, {"cls": cls,
                             "expected": "SettingValidationError", "observed": o[1:] if o[0] == "exc" else "returned", "detail": {"settings": st, "string": c["s"]}}
    if sub == "invalid-after-valid":
        valid, st = TWINS[c["twin"]]

        def call(which, d, text):
            if which == "parse":
                return api.outcome_of(dateparser.parse, text, languages=["en"], settings=dict(d))
            if which == "search":
                from dateparser.search import search_dates
                return api.outcome_of(search_dates, "on " + text, languages=["en"], settings=dict(d))
            return api.outcome_of(lambda: api.DateDataParser(languages=["en"], settings=dict(d)).get_date_data(text))
        other = "ddp" if c["api"] == "parse" else "parse"
        w = c["warm"]
        if w in ("twin", "twin-then-itself"):
            call(c["api"], valid, "1 March 2015")
        if w == "twin-other-api":
            call(other, valid, "1 March 2015")
        if w == "twin-search":
            call("search", valid, "1 March 2015")
        if w in ("itself", "twin-then-itself"):
            call(c["api"], st, "1 March 2015")
        if w == "other-valid":
            call(c["api"], {"PREFER_DAY_OF_MONTH": "first"}, "1 March 2015")
        o = call(c["api"], st, c["s"])
        if o[0] == "exc" and o[1] == "SettingValidationError":
            return "rejected", True, None
        return "bad", True, {"cls": {"form": "invalid-after-valid", "setting": sorted(st)[0], "warm": w, "kind": "accepted" if o[0] == "ok" else o[1]},
                             "expected": "SettingValidationError", "observed": o[1:] if o[0] == "exc" else "returned",
                             "detail": {"valid_first": repr(valid), "settings": repr(st), "string": c["s"]}}
    if sub == "bad-arguments":
        kw = BAD_ARGS[c["arg"]]
        o = api.outcome_of(dateparser.parse, c["s"], **kw)
        want = BAD_ARG_EXPECT[c["arg"]]
        if o[0] == "exc" and o[1] == want:
            return "rejected", True, None
        if o[0] == "ok" and (o[1] is None or isinstance(o[1], datetime)):
            # the statement lists the exceptions that MAY escape; only invalid settings MUST be rejected
            return "accepted-without-error", False, None
        return "bad", True, {"cls": {"form": "bad-arguments", "arg": sorted(kw)[0], "kind": "accepted" if o[0] == "ok" else o[1]},
                             "expected": want, "observed": o[1:] if o[0] == "exc" else "returned", "detail": {"kwargs": kw, "string": c["s"]}}
    if sub == "non-str-input":
        v = NONSTR[c["v"]]
        if c["api"] == "parse":
            o = api.outcome_of(dateparser.parse, v)
        else:
            o = api.outcome_of(api.DateDataParser(languages=["en"]).get_date_data, v)
        if o[0] == "exc" and o[1] == "TypeError":
            return "rejected", True, None
        return "bad", True, {"cls": {"form": "non-str-input", "type": type(v).__name__, "kind": "accepted" if o[0] == "ok" else o[1]},
                             "expected": "TypeError", "observed": o[1:] if o[0] == "exc" else "returned", "detail": {}}
    if sub == "language-vocabulary":
        s = c["s"]
        kw = {"languages": [c["lang"]], "settings": None}
        name = "lang"
    else:
        s = build(c)
        if len(s) > 100:
            return None
        if c["cfg"] == -1:
            name, kw = "autodetect", {"settings": None}
        else:
            name, kw = CONFIGS[c["cfg"]]
    fm = kw.get("date_formats")
    o = api.outcome_of(api.gdd, s, kw.get("languages"), kw.get("locales"), kw.get("region"), kw.get("settings"), fm)
    if o[0] == "ok":
        prob = judge_ok(o[1])
        if prob is None:
            if sub == "slot-grammar" and c["cfg"] == CFG_INDEX["default-en"]:
                # the same call through dateparser.parse: None or a datetime
                o2 = api.outcome_of(dateparser.parse, s, languages=["en"])
                if o2[0] == "exc" or not (o2[1] is None or isinstance(o2[1], datetime)):
                    return "bad", True, {"cls": {"form": "parse()", "kind": o2[1] if o2[0] == "exc" else "not datetime/None",
                                                 "site": o2[3] if o2[0] == "exc" else None},
                                         "expected": "None or datetime", "observed": o2[1:], "detail": {"string": s}}
            return ("value" if o[1].date_obj is not None else "none"), o[1].date_obj is not None, None
        return "bad", True, {"cls": {"form": "malformed-DateData", "kind": prob.split(" ")[0]}, "expected": "well-formed DateData",
                             "observed": repr(o[1]), "detail": {"string": s, "config": name, "problem": prob}}
    return "bad", True, {"cls": {"form": "exception", "exception": o[1], "site": o[3]},
                         "expected": "None or datetime (no exception)", "observed": o[1:],
                         "detail": {"string": s, "config": name, "kwargs": kw}}


def describe(sub, c):
    if sub in ("invalid-settings", "invalid-after-valid", "bad-arguments", "non-str-input", "language-vocabulary"):
        return None
    return {"string": build(c), "config": "autodetect" if c["cfg"] == -1 else CONFIGS[c["cfg"]][0]}
