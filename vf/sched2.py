"""E4b — two-preemption schedule enumeration at source-line granularity on the real code (cooperative baton scheduler).

A schedule is (k, j): thread A runs from the initial state until just before its k-th library line event, is
preempted; thread B runs from its start until just before its j-th library line event, is preempted; A runs to
completion; B runs to completion.  (j >= B's length degenerates to the single-preemption schedule of vf/sched.py.)
Exactly one thread is runnable at any time: every hand-over goes through a semaphore baton owned by the controller,
so an execution is a function of (initial state, k, j).  The one real lock the calls take (`_strptime._cache_lock`,
held while the library's patched `_getlang` runs) is replaced by a proxy that turns "would block" into a visible
scheduling event: the blocked thread yields to the other thread, which then runs to completion.

One schedule = one forked child of the driver (fresh copy of the initial state).
"""
import _strptime
import os
import sys
import threading

from .target import REPO

LIB = os.path.join(REPO, "dateparser") + os.sep


class _ProxyLock:
    """Drop-in for _strptime._cache_lock: never blocks the OS thread while the holder is paused."""

    def __init__(self, real, coop):
        self.real, self.coop = real, coop

    def __enter__(self):
        while not self.real.acquire(False):
            self.coop.blocked()
        return True

    def __exit__(self, *a):
        self.real.release()

    def acquire(self, blocking=True, timeout=-1):
        while not self.real.acquire(False):
            if not blocking:
                return False
            self.coop.blocked()
        return True

    def release(self):
        self.real.release()


class Coop:
    def __init__(self, run_a, run_b):
        self.fn = {"A": run_a, "B": run_b}

    # ---- one schedule, to be called in a fresh forked child ----------------------------------------------------
    def run(self, k, j):
        self.stop = {"A": k, "B": j}
        self.count = {"A": -1, "B": -1}
        self.sem = {"A": threading.Semaphore(0), "B": threading.Semaphore(0)}
        self.main = threading.Semaphore(0)
        self.status = {"A": "new", "B": "new"}       # new / paused / blocked / done
        self.result = {}
        self.reached = {"A": None, "B": None}
        self.nblocked = 0
        self.tls = threading.local()
        # the stdlib module and the library's private copy of it ("strptime_patched") each have their own lock
        mods = [m for m in (_strptime, sys.modules.get("strptime_patched")) if m is not None and hasattr(m, "_cache_lock")]
        reals = [m._cache_lock for m in mods]
        for m in mods:
            m._cache_lock = _ProxyLock(m._cache_lock, self)
        try:
            th = {n: threading.Thread(target=self._body, args=(n,), daemon=True) for n in "AB"}
            order = []
            # A until k
            th["A"].start()
            self._give("A", order)
            # B until j (or blocked, or done)
            th["B"].start()
            self._give("B", order)
            # then: A to completion, B to completion; a thread that blocks yields to the other
            guard = 0
            while self.status["A"] != "done" or self.status["B"] != "done":
                guard += 1
                if guard > 50:
                    return {"error": "scheduler made no progress", "status": dict(self.status)}
                for n in "AB":
                    if self.status[n] != "done":
                        self.stop[n] = None
                        self._give(n, order)
            return {"ra": self.result.get("A"), "rb": self.result.get("B"), "reached": self.reached, "order": order,
                    "blocked": self.nblocked, "count": self.count}
        finally:
            for m, real in zip(mods, reals):
                m._cache_lock = real

    def _give(self, n, order):
        """Let thread n run until it pauses, blocks or finishes."""
        order.append(n)
        self.sem[n].release()
        if not self.main.acquire(timeout=60):
            import traceback
            frames = sys._current_frames()
            where = {t.name: "".join(traceback.format_stack(frames[t.ident])[-4:]) for t in threading.enumerate() if t.ident in frames}
            raise RuntimeError("thread %s neither paused nor finished within 60 s; stacks: %r" % (n, where))

    def _yield(self, n, status):
        self.status[n] = status
        self.main.release()
        self.sem[n].acquire()
        self.status[n] = "running"

    # ---- thread side -----------------------------------------------------------------------------------------
    def _body(self, n):
        self.tls.name = n
        self.sem[n].acquire()
        self.status[n] = "running"
        sys.settrace(self._global)
        try:
            r = self.fn[n]()
        finally:
            sys.settrace(None)
        self.result[n] = r
        self.status[n] = "done"
        self.main.release()

    def blocked(self):
        n = self.tls.name
        self.nblocked += 1
        self._yield(n, "blocked")

    def _global(self, frame, event, arg):
        if frame.f_code.co_filename.startswith(LIB):
            return self._local
        return None

    def _local(self, frame, event, arg):
        if event != "line":
            return self._local
        n = self.tls.name
        self.count[n] += 1
        if self.stop[n] is not None and self.count[n] == self.stop[n]:
            self.reached[n] = (frame.f_code.co_filename[len(LIB):], frame.f_lineno, frame.f_code.co_name)
            self.stop[n] = None
            # no further stop for this thread: stop tracing it (the remaining line events need not be counted)
            sys.settrace(None)
            f = frame
            while f is not None:
                f.f_trace = None
                f = f.f_back
            self._yield(n, "paused")
            return None
        return self._local


def record(fn):
    """Line-event locations of one traced run of fn on the calling thread (no scheduling).  Each event is
    (file, line, function, id of the library call stack it happens under)."""
    locs = []
    stack = []
    sigs = {}

    def g(frame, event, arg):
        if frame.f_code.co_filename.startswith(LIB):
            stack.append(frame.f_code.co_name)
            return l_
        return None

    def l_(frame, event, arg):
        if event == "line":
            sig = sigs.setdefault(tuple(stack), len(sigs))
            locs.append((frame.f_code.co_filename[len(LIB):], frame.f_lineno, frame.f_code.co_name, sig))
        elif event == "return":
            if stack:
                stack.pop()
        return l_
    sys.settrace(g)
    try:
        r = fn()
    finally:
        sys.settrace(None)
    return r, locs
