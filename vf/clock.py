"""Clock seam: rebinds every `datetime` class global of every loaded dateparser* module to a proxy
whose now()/today()/utcnow() return a virtual instant.  Everything else behaves like datetime."""
import sys
from datetime import datetime as _real, timezone as _tz

_state = {"instant": None}   # naive UTC instant


class _Meta(type):
    def __instancecheck__(cls, obj):
        return isinstance(obj, _real)

    def __subclasscheck__(cls, sub):
        return issubclass(sub, _real)


class FrozenDatetime(_real, metaclass=_Meta):
    def __new__(cls, *a, **k):
        return _real(*a, **k)

    @classmethod
    def now(cls, tz=None):
        inst = _state["instant"]
        if inst is None:
            return _real.now(tz)
        if tz is None:
            return inst  # process zone is UTC in every harness worker unless stated
        return inst.replace(tzinfo=_tz.utc).astimezone(tz)

    @classmethod
    def today(cls):
        return cls.now()

    @classmethod
    def utcnow(cls):
        return cls.now()


def install():
    n = 0
    for name, mod in list(sys.modules.items()):
        if mod is None or not (name == "dateparser" or name.startswith("dateparser.")):
            continue
        for k, v in list(vars(mod).items()):
            if v is _real:
                setattr(mod, k, FrozenDatetime)
                n += 1
    return n


def freeze(instant):
    """instant: naive datetime understood as UTC (the harness runs with TZ=UTC), or None to thaw."""
    _state["instant"] = instant


def prove(parse):
    """Proof step: 'now' must come back as the virtual instant for two different instants."""
    from .target import InfraError

    install()
    for inst in (_real(2001, 2, 3, 4, 5, 6), _real(2033, 11, 30, 23, 59, 58)):
        freeze(inst)
        got = parse("now", languages=["en"], settings={"TIMEZONE": "UTC"})
        if got != inst:
            freeze(None)
            raise InfraError("clock seam lost: parse('now') gave %r under virtual %r" % (got, inst))
    freeze(None)
