"""E4 — single-preemption schedule enumeration at source-line granularity on the real code.

A runs on the main thread under sys.settrace.  At every selected `line` event inside the library (event index k)
the process fork()s: the child *is* the schedule "preempt A before line k" — it stops tracing, runs B to completion
on a real thread (or until B blocks on something A holds: then A is resumed first), lets A finish, and records
(k, location, rA, rB).  The parent keeps tracing towards k+1.  No sampling: every selected k is executed.
"""
import _strptime
import json
import os
import sys
import threading
import time

from .target import REPO

LIB = os.path.join(REPO, "dateparser") + os.sep


class _VisibleLock:
    """Stands in for a `_cache_lock` inside a schedule (child) process: B, finding the lock held by the preempted A,
    reports that it is blocked (so that A is resumed at once instead of after a timeout) and keeps trying."""

    def __init__(self, real, on_block):
        self.real, self.on_block = real, on_block

    def __enter__(self):
        self.acquire()
        return True

    def __exit__(self, *a):
        self.real.release()

    def acquire(self, blocking=True, timeout=-1):
        if self.real.acquire(False):
            return True
        if not blocking:
            return False
        self.on_block()
        self.real.acquire()
        return True

    def release(self):
        self.real.release()


class Tracer:
    def __init__(self, run_a, run_b, outdir, select=None, cap=3, b_timeout=5.0):
        self.run_a, self.run_b = run_a, run_b
        self.outdir = outdir
        self.select = select          # None = every event; else a set of event indices
        self.cap = cap
        self.b_timeout = b_timeout
        self.k = -1
        self.locs = []
        self.live = set()
        self.child_k = None
        self.child_loc = None
        self.b_result = []
        self.b_thread = None
        self.b_blocked = False
        self.forks = 0

    # -- tracing ------------------------------------------------------------------------------
    def _global(self, frame, event, arg):
        if frame.f_code.co_filename.startswith(LIB):
            return self._local
        return None

    def _local(self, frame, event, arg):
        if event != "line":
            return self._local
        self.k += 1
        k = self.k
        if self.record_only:
            caller = frame.f_back.f_code.co_name if frame.f_back is not None else ""
            self.locs.append((frame.f_code.co_filename[len(LIB):], frame.f_lineno, frame.f_code.co_name, caller))
            return self._local
        if self.select is not None and k not in self.select:
            return self._local
        while len(self.live) >= self.cap:
            self._reap(block=True)
        pid = os.fork()
        if pid:
            self.live.add(pid)
            self.forks += 1
            self._reap(block=False)
            return self._local
        # ---- child: this process is schedule k ----
        sys.settrace(None)
        f = frame
        while f is not None:
            f.f_trace = None
            f = f.f_back
        self.child_k = k
        self.child_loc = (frame.f_code.co_filename[len(LIB):], frame.f_lineno, frame.f_code.co_name)
        self.live = set()
        # make waiting visible: the stdlib _strptime module and the library's private copy each have a cache lock
        self.b_event = threading.Event()
        for m in (_strptime, sys.modules.get("strptime_patched")):
            if m is not None and hasattr(m, "_cache_lock") and not isinstance(m._cache_lock, _VisibleLock):
                m._cache_lock = _VisibleLock(m._cache_lock, self._b_blocks)
        t = threading.Thread(target=self._run_b, daemon=True)
        self.b_thread = t
        t.start()
        self.b_event.wait(self.b_timeout)
        if t.is_alive():
            self.b_blocked = True      # B waits for something A holds: resume A, join B afterwards
        return None

    def _b_blocks(self):
        if threading.current_thread() is self.b_thread:
            self.b_blocked = True
            self.b_event.set()

    def _run_b(self):
        try:
            self.b_result.append(self.run_b())
        finally:
            self.b_event.set()

    def _reap(self, block):
        while self.live:
            try:
                pid, st = os.waitpid(-1, 0 if block else os.WNOHANG)
            except ChildProcessError:
                self.live.clear()
                return
            if pid == 0:
                return
            self.live.discard(pid)
            if block:
                return

    # -- entry points -------------------------------------------------------------------------
    def record(self):
        """Traced run of A without forking: the list of locations of all line events."""
        self.record_only = True
        self.k = -1
        self.locs = []
        sys.settrace(self._global)
        try:
            ra = self.run_a()
        finally:
            sys.settrace(None)
        return ra, self.locs

    def explore(self):
        """Traced run of A that forks one schedule per selected event.  Returns in the tracer (parent) only."""
        self.record_only = False
        self.k = -1
        sys.settrace(self._global)
        try:
            ra = self.run_a()
        finally:
            sys.settrace(None)
        if self.child_k is not None:
            # we are a schedule: A has finished; collect B and report
            deadlock = False
            if self.b_thread.is_alive():
                self.b_thread.join(60)
                deadlock = self.b_thread.is_alive()
            rb = self.b_result[0] if self.b_result else ("deadlock" if deadlock else "missing")
            rec = {"k": self.child_k, "loc": self.child_loc, "ra": ra, "rb": rb, "blocked": self.b_blocked}
            tmp = os.path.join(self.outdir, ".%d.tmp" % self.child_k)
            with open(tmp, "w") as fh:
                json.dump(rec, fh)
            os.replace(tmp, os.path.join(self.outdir, "%d.json" % self.child_k))
            os._exit(0)
        while self.live:
            self._reap(block=True)
        return ra, self.k + 1
