"""Loader for exactly the YAML subset the supplementary language files use: block mappings, block
sequences (of scalars or of one-pair mappings), single-line flow sequences, plain / single- / double-quoted
scalars, integers, comments.  Anything else raises UnsupportedYAML (the caller then records the file as
undecided instead of guessing).  Self-validated by C16: every module regenerated through this loader must be
byte-identical to the shipped one on the pinned tree."""
import re
from collections import OrderedDict


class UnsupportedYAML(Exception):
    pass


_INT = re.compile(r"^[-+]?[0-9]+$")
_FLOAT = re.compile(r"^[-+]?(\.[0-9]+|[0-9]+(\.[0-9]*)?)([eE][-+]?[0-9]+)?$")
_ESC = {"n": "\n", "t": "\t", "\\": "\\", '"': '"', "/": "/", "0": "\0", "r": "\r", " ": " ", "a": "\a", "b": "\b", "e": "\x1b",
        "f": "\f", "v": "\v", "N": "\x85", "_": "\xa0"}


def _strip_comment(line):
    """Remove a trailing comment (a '#' at line start or preceded by whitespace, outside quotes)."""
    q = None
    i = 0
    while i < len(line):
        ch = line[i]
        if q:
            if q == '"' and ch == "\\":
                i += 2
                continue
            if ch == q:
                if q == "'" and line[i + 1:i + 2] == "'":
                    i += 2
                    continue
                q = None
        else:
            if ch in "'\"" and (i == 0 or line[i - 1] in " \t[,:-"):
                # a quote only opens a quoted scalar at a token start
                before = line[:i].rstrip()
                if before == "" or before.endswith((":", "-", "[", ",")):
                    q = ch
            elif ch == "#" and (i == 0 or line[i - 1] in " \t"):
                return line[:i].rstrip()
        i += 1
    return line.rstrip()


def _unquote_double(s):
    out = []
    i = 0
    while i < len(s):
        ch = s[i]
        if ch == "\\":
            n = s[i + 1:i + 2]
            if n == "x":
                out.append(chr(int(s[i + 2:i + 4], 16)))
                i += 4
            elif n == "u":
                out.append(chr(int(s[i + 2:i + 6], 16)))
                i += 6
            elif n == "U":
                out.append(chr(int(s[i + 2:i + 10], 16)))
                i += 10
            elif n in _ESC:
                out.append(_ESC[n])
                i += 2
            else:
                raise UnsupportedYAML("escape \\%s" % n)
        else:
            out.append(ch)
            i += 1
    return "".join(out)


def _scalar(tok):
    tok = tok.strip()
    if tok == "":
        raise UnsupportedYAML("empty scalar")
    if tok[0] == '"':
        if len(tok) < 2 or tok[-1] != '"':
            raise UnsupportedYAML("unterminated double-quoted scalar: %r" % tok)
        return _unquote_double(tok[1:-1])
    if tok[0] == "'":
        if len(tok) < 2 or tok[-1] != "'":
            raise UnsupportedYAML("unterminated single-quoted scalar: %r" % tok)
        return tok[1:-1].replace("''", "'")
    if tok[0] in "[]{}*&!|>%@`" or tok.startswith(("- ", "? ")):
        raise UnsupportedYAML("indicator at start of plain scalar: %r" % tok)
    if _INT.match(tok):
        return int(tok)
    # YAML 1.2 core schema (what ruamel.yaml resolves by default): booleans, null, floats
    if tok in ("true", "True", "TRUE"):
        return True
    if tok in ("false", "False", "FALSE"):
        return False
    if tok in ("null", "Null", "NULL", "~"):
        return None
    if _FLOAT.match(tok):
        return float(tok)
    if tok.startswith(("0x", "0o")):
        raise UnsupportedYAML("hexadecimal / octal plain scalar: %r" % tok)
    return tok


def _flow_seq(tok):
    tok = tok.strip()
    if not (tok.startswith("[") and tok.endswith("]")):
        raise UnsupportedYAML("flow sequence must be on one line: %r" % tok)
    body = tok[1:-1]
    items = []
    cur = ""
    q = None
    i = 0
    while i < len(body):
        ch = body[i]
        if q:
            cur += ch
            if q == '"' and ch == "\\":
                cur += body[i + 1]
                i += 2
                continue
            if ch == q:
                if q == "'" and body[i + 1:i + 2] == "'":
                    cur += "'"
                    i += 2
                    continue
                q = None
        elif ch in "'\"" and cur.strip() == "":
            q = ch
            cur += ch
        elif ch == ",":
            items.append(cur)
            cur = ""
        elif ch in "[]{}":
            raise UnsupportedYAML("nested flow collection")
        else:
            cur += ch
        i += 1
    if q:
        raise UnsupportedYAML("unterminated quote in flow sequence")
    if cur.strip() != "" or items:
        items.append(cur)
    if items and items[-1].strip() == "":
        items.pop()
    return [_scalar(x) for x in items]


def _split_key(text):
    """'key: value' / 'key:' -> (key token, value token or None); None if not a mapping entry."""
    t = text
    if t[:1] in "'\"":
        q = t[0]
        i = 1
        while i < len(t):
            if q == '"' and t[i] == "\\":
                i += 2
                continue
            if t[i] == q:
                if q == "'" and t[i + 1:i + 2] == "'":
                    i += 2
                    continue
                break
            i += 1
        rest = t[i + 1:]
        m = re.match(r"^\s*:(\s+(.*))?$", rest)
        if not m:
            return None
        return t[:i + 1], (m.group(2) if m.group(2) not in (None, "") else None)
    m = re.search(r"\s*:(\s+|$)", t)
    if not m:
        return None
    key = t[:m.start()]
    val = t[m.end():]
    return key, (val if val.strip() != "" else None)


def _value(tok):
    tok = tok.strip()
    if tok.startswith("["):
        return _flow_seq(tok)
    if tok.startswith("{"):
        raise UnsupportedYAML("flow mapping")
    if tok[:1] in "|>&*!":
        raise UnsupportedYAML("block scalar / anchor / tag")
    return _scalar(tok)


def load(text):
    lines = []
    for raw in text.splitlines():
        if "\t" in raw[:len(raw) - len(raw.lstrip())]:
            raise UnsupportedYAML("tab indentation")
        s = _strip_comment(raw)
        if s.strip() == "":
            continue
        if s.strip() in ("---", "..."):
            raise UnsupportedYAML("document markers")
        lines.append((len(s) - len(s.lstrip(" ")), s.strip()))
    pos = [0]

    def parse_block(indent):
        if pos[0] >= len(lines):
            return None
        ind, txt = lines[pos[0]]
        if txt.startswith("- ") or txt == "-":
            return parse_seq(ind)
        return parse_map(ind)

    def parse_map(indent):
        out = OrderedDict()
        while pos[0] < len(lines):
            ind, txt = lines[pos[0]]
            if ind < indent:
                break
            if ind > indent:
                raise UnsupportedYAML("unexpected indentation at %r" % txt)
            if txt.startswith("- "):
                break
            kv = _split_key(txt)
            if kv is None:
                raise UnsupportedYAML("not a mapping entry: %r" % txt)
            key = _scalar(kv[0])
            pos[0] += 1
            if kv[1] is not None:
                val = _value(kv[1])
            else:
                if pos[0] < len(lines) and (lines[pos[0]][0] > indent or
                                            (lines[pos[0]][0] == indent and lines[pos[0]][1].startswith("- "))):
                    val = parse_block(lines[pos[0]][0])
                else:
                    val = None
            if key in out:
                raise UnsupportedYAML("duplicate key %r" % (key,))
            out[key] = val
        return out

    def parse_seq(indent):
        out = []
        while pos[0] < len(lines):
            ind, txt = lines[pos[0]]
            if ind != indent or not (txt.startswith("- ") or txt == "-"):
                if ind > indent:
                    raise UnsupportedYAML("unexpected indentation in sequence at %r" % txt)
                break
            item = txt[2:].strip() if txt != "-" else ""
            if item == "":
                raise UnsupportedYAML("empty / nested block sequence item")
            kv = _split_key(item) if not item.startswith("[") else None
            pos[0] += 1
            if kv is not None:
                if kv[1] is None:
                    raise UnsupportedYAML("nested block inside a sequence item: %r" % txt)
                out.append(OrderedDict([(_scalar(kv[0]), _value(kv[1]))]))
                if pos[0] < len(lines) and lines[pos[0]][0] > indent:
                    raise UnsupportedYAML("multi-pair mapping inside a sequence item")
            else:
                out.append(_value(item))
        return out

    if not lines:
        return OrderedDict()
    res = parse_block(lines[0][0])
    if pos[0] != len(lines):
        raise UnsupportedYAML("trailing content at %r" % (lines[pos[0]][1],))
    return res
