"""Reference semantics of relative expressions: months first (day clamped), then exact timedelta.
Own arithmetic; no dateutil.relativedelta."""
from datetime import datetime, timedelta
from fractions import Fraction

from . import cal

UNIT_US = {"second": 10 ** 6, "minute": 60 * 10 ** 6, "hour": 3600 * 10 ** 6,
           "day": 86400 * 10 ** 6, "week": 7 * 86400 * 10 ** 6}
UNIT_MONTHS = {"month": 1, "year": 12, "decade": 120}
UNITS = ["second", "minute", "hour", "day", "week", "month", "year", "decade"]


def shift(base, parts, sign):
    """base: naive datetime; parts: [(count, unit)], count int or str decimal; sign +1/-1.
    -> datetime or None when the result leaves [0001-01-01, 9999-12-31 23:59:59.999999]."""
    months = 0
    us = Fraction(0)
    for n, u in parts:
        if u in UNIT_MONTHS:
            months += int(n) * UNIT_MONTHS[u]
        else:
            us += Fraction(str(n).replace(",", ".")) * UNIT_US[u]
    ymd = cal.add_months(base.year, base.month, base.day, sign * months)
    if ymd is None:
        return None
    if us.denominator != 1:
        raise ValueError("non-integral microseconds")
    o = cal.ordinal(*ymd) - 1
    total = (o * 86400 + base.hour * 3600 + base.minute * 60 + base.second) * 10 ** 6 + base.microsecond
    total += sign * int(us)
    if total < 0:
        return None
    days, rem = divmod(total, 86400 * 10 ** 6)
    if days + 1 > cal.MAX_ORDINAL:
        return None
    y, m, d = cal.from_ordinal(days + 1)
    s, micro = divmod(rem, 10 ** 6)
    return datetime(y, m, d, s // 3600, s % 3600 // 60, s % 60, micro)


def period(parts, has_clock=False, time_as_period=False):
    if has_clock and time_as_period:
        return "time"
    units = [u for _, u in parts]
    if "day" in units:
        return "day"
    for u, p in (("week", "week"), ("month", "month"), ("year", "year"), ("decade", "year")):
        if u in units:
            # finest of week < month < year (decades count as years)
            return p if u != "decade" or "year" not in units else "year"
    return "day"
