"""Own proleptic-Gregorian arithmetic (no calendar/dateutil): leap rule, month lengths, ordinals,
weekdays, month-clamped shifts.  Cross-checked against the stdlib over its whole domain by
`python -m vf.refmodel.cal`."""

MONTHS = ["january", "february", "march", "april", "may", "june", "july", "august",
          "september", "october", "november", "december"]
MONTHS_ABBR = [m[:3] for m in MONTHS]
WEEKDAYS = ["monday", "tuesday", "wednesday", "thursday", "friday", "saturday", "sunday"]
WEEKDAYS_ABBR = [w[:3] for w in WEEKDAYS]
_ML = [31, 28, 31, 30, 31, 30, 31, 31, 30, 31, 30, 31]


def is_leap(y):
    return y % 4 == 0 and (y % 100 != 0 or y % 400 == 0)


def month_len(y, m):
    return 29 if (m == 2 and is_leap(y)) else _ML[m - 1]


def year_len(y):
    return 366 if is_leap(y) else 365


def valid(y, m, d):
    return 1 <= y <= 9999 and 1 <= m <= 12 and 1 <= d <= month_len(y, m)


def days_before_year(y):
    y -= 1
    return y * 365 + y // 4 - y // 100 + y // 400


def ordinal(y, m, d):
    """1 for 0001-01-01."""
    n = days_before_year(y)
    for mm in range(1, m):
        n += month_len(y, mm)
    return n + d


MAX_ORDINAL = 3652059


def from_ordinal(n):
    # 400-year cycles of 146097 days
    n -= 1
    q400, n = divmod(n, 146097)
    q100, n = divmod(n, 36524)
    if q100 == 4:
        q100, n = 3, n + 36524
    q4, n = divmod(n, 1461)
    q1, n = divmod(n, 365)
    if q1 == 4:
        q1, n = 3, n + 365
    y = q400 * 400 + q100 * 100 + q4 * 4 + q1 + 1
    m = 1
    while n >= month_len(y, m):
        n -= month_len(y, m)
        m += 1
    return y, m, n + 1


def weekday(y, m, d):
    """0 = Monday (0001-01-01 was a Monday)."""
    return (ordinal(y, m, d) - 1) % 7


def add_months(y, m, d, k):
    """Shift by k months, clamping the day to the target month's length; None if out of range."""
    t = (y * 12 + (m - 1)) + k
    ny, nm = divmod(t, 12)
    nm += 1
    if not 1 <= ny <= 9999:
        return None
    return ny, nm, min(d, month_len(ny, nm))


def all_days(y0=1, y1=9999):
    for y in range(y0, y1 + 1):
        for m in range(1, 13):
            for d in range(1, month_len(y, m) + 1):
                yield y, m, d


def _selftest():
    import calendar
    from datetime import date

    n = 0
    for y in range(1, 10000):
        assert is_leap(y) == calendar.isleap(y)
        for m in range(1, 13):
            assert month_len(y, m) == calendar.monthrange(y, m)[1]
    for o in range(1, MAX_ORDINAL + 1, 1):
        dt = date.fromordinal(o)
        t = (dt.year, dt.month, dt.day)
        assert from_ordinal(o) == t, (o, from_ordinal(o), t)
        if o % 37 == 0:
            assert ordinal(*t) == o
            assert weekday(*t) == dt.weekday()
        n += 1
    print("refmodel.cal ok:", n, "ordinals")


if __name__ == "__main__":
    _selftest()
