"""Canonical snapshot of all library-reachable mutable state (E2's state function).

Walks, generically, everything reachable from the globals and class attributes of every loaded
`dateparser*` module: module -> globals -> classes (class attributes, incl. name-mangled registries) ->
instances (__dict__) -> containers.  Regexes are canonicalised to (pattern, flags), callables to qualified
names, tzinfo/datetimes to repr, sets are sorted, dict order is preserved (cache eviction pops the first key,
so order matters for the future).  Third-party memo caches keyed by complete inputs are not part of it.
"""
import hashlib
import sys
import types
from datetime import date, datetime, time, timedelta, tzinfo

_ATOM = (str, bytes, int, float, bool, type(None), complex)


def _is_lib_module_name(name):
    return name == "dateparser" or name.startswith(("dateparser.", "dateparser_data"))


def snapshot(max_items=2_000_000, components=False, extra_roots=None):
    h = hashlib.blake2b(digest_size=16)
    seen = {}
    count = [0]
    comp = {}

    def emit(s):
        h.update(s.encode("utf-8", "surrogatepass"))
        h.update(b"\x1f")

    def walk(o, depth=0):
        count[0] += 1
        if count[0] > max_items:
            raise RuntimeError("snapshot too large")
        if isinstance(o, _ATOM):
            emit("%s:%r" % (type(o).__name__, o))
            return
        if isinstance(o, (datetime, date, time, timedelta)):
            emit(repr(o))
            return
        if isinstance(o, tzinfo):
            emit("tz:" + repr(o))
            return
        oid = id(o)
        if oid in seen:
            emit("ref:%d" % seen[oid])
            return
        tn = type(o).__module__ + "." + type(o).__qualname__
        if hasattr(o, "pattern") and hasattr(o, "flags") and hasattr(o, "match"):
            emit("re:%r:%d" % (o.pattern, int(o.flags)))
            return
        if isinstance(o, (types.FunctionType, types.BuiltinFunctionType, types.MethodType, staticmethod, classmethod, property)):
            emit("fn:" + getattr(o, "__qualname__", getattr(getattr(o, "__func__", None), "__qualname__", tn)))
            return
        if isinstance(o, types.ModuleType):
            emit("mod:" + o.__name__)
            return
        seen[oid] = len(seen)
        if isinstance(o, dict):
            emit("{%s" % tn)
            for k, v in o.items():
                walk(k, depth + 1)
                walk(v, depth + 1)
            emit("}")
            return
        if isinstance(o, (list, tuple)):
            emit("[%s" % tn)
            for v in o:
                walk(v, depth + 1)
            emit("]")
            return
        if isinstance(o, (set, frozenset)):
            emit("<%s" % tn)
            for v in sorted(o, key=repr):
                walk(v, depth + 1)
            emit(">")
            return
        if isinstance(o, type):
            if not _is_lib_module_name(o.__module__ or ""):
                emit("cls:" + tn + ":" + o.__module__ + "." + o.__qualname__)
                return
            emit("class:" + o.__module__ + "." + o.__qualname__)
            for k in sorted(vars(o)):
                v = vars(o)[k]
                if k in ("__dict__", "__weakref__", "__doc__", "__module__", "__qualname__", "__firstlineno__", "__static_attributes__"):
                    continue
                if isinstance(v, (types.FunctionType, staticmethod, classmethod, property, types.MemberDescriptorType,
                                  types.GetSetDescriptorType, types.WrapperDescriptorType, types.MethodDescriptorType)):
                    continue
                emit("." + k)
                walk(v, depth + 1)
            return
        mod = type(o).__module__ or ""
        d = getattr(o, "__dict__", None)
        if _is_lib_module_name(mod) and isinstance(d, dict):
            emit("obj:" + tn)
            for k in sorted(d):
                emit("." + k)
                walk(d[k], depth + 1)
            return
        if isinstance(d, dict) and type(o).__name__ in ("OrderedDict",):
            emit("{od")
            for k, v in o.items():
                walk(k, depth + 1)
                walk(v, depth + 1)
            emit("}")
            return
        emit("opaque:" + tn)

    for name in sorted(sys.modules):
        m = sys.modules[name]
        if m is None or not _is_lib_module_name(name):
            continue
        if name.startswith("dateparser.data.date_translation_data."):
            # static data modules: which ones are imported is not behaviour-relevant; their content is
            # reached through the loader's caches when it matters
            continue
        before = h.copy() if components else None
        emit("module:" + name)
        for k in sorted(vars(m)):
            if k.startswith("__") and k.endswith("__"):
                continue
            v = vars(m)[k]
            if isinstance(v, types.ModuleType):
                continue
            emit("g:" + k)
            walk(v)
        if components:
            hh = h.copy()
            comp[name] = hh.hexdigest()
    for k in sorted(extra_roots or {}):
        emit("root:" + k)
        walk(extra_roots[k])
    if components:
        return h.hexdigest(), count[0], comp
    return h.hexdigest(), count[0]
