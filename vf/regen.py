"""Child process of C16: runs the repository's real write_complete_data(in_memory=True) inside a scratch copy
of the tree with the ruamel.yaml shim, and dumps {filename: text} + undecided files as JSON on stdout."""
import json
import os
import sys

scratch = sys.argv[1]
sys.path.insert(0, os.path.join(os.path.dirname(os.path.abspath(__file__)), "shims"))
sys.path.insert(0, os.path.dirname(os.path.dirname(os.path.abspath(__file__))))
sys.path.insert(0, scratch)
import ruamel.yaml as shim  # noqa: E402
from dateparser_scripts import write_complete_data as w  # noqa: E402

assert os.path.realpath(w.__file__).startswith(os.path.realpath(scratch)), w.__file__
res = w.write_complete_data(in_memory=True)
out = {}
for k, v in res.items():
    out[os.path.basename(k)] = v.decode("utf-8") if isinstance(v, bytes) else v
json.dump({"files": out, "undecided": shim.UNDECIDED}, sys.stdout)
