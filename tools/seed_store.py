#!/usr/bin/env python3
"""tools/seed_store.py <resultdir> — copy confirmed seeded changes (tools/seed_eval.py results) into /verif/seeded/<id>-<k>/."""
import glob, json, os, shutil, sys
res = sys.argv[1] if len(sys.argv) > 1 else "/dev/shm/seedres"
root = os.path.join(os.path.dirname(os.path.abspath(__file__)), "..", "seeded")
n = 0
for f in sorted(glob.glob(os.path.join(res, "*.json"))):
    try:
        r = json.load(open(f))
    except Exception:
        continue
    name = os.path.basename(f)[:-5]
    if not r.get("ok"):
        print("NOT CONFIRMED:", name, r.get("demo_unpatched"), r.get("demo_patched"), r.get("suite"))
        continue
    src = r["dir"]
    dst = os.path.join(root, name)
    os.makedirs(dst, exist_ok=True)
    for fn in ("patch.diff", "demo.py"):
        shutil.copy(os.path.join(src, fn), os.path.join(dst, fn))
    if os.path.exists(os.path.join(src, "patch.original.diff")):
        # the change as the sub-agent wrote it; patch.diff is the same change carried over to the tree after later fix: commits
        shutil.copy(os.path.join(src, "patch.original.diff"), os.path.join(dst, "patch.original.diff"))
    try:
        meta = json.load(open(os.path.join(src, "meta.json")))
    except Exception:
        meta = {}
    old = {}
    if os.path.exists(os.path.join(dst, "meta.json")):
        old = json.load(open(os.path.join(dst, "meta.json"))).get("caught_by", {})
    meta.setdefault("property", name.split("-")[0])
    meta["origin"] = "independent sub-agent given only the property text and its own worktree"
    if r.get("suite_note"):
        meta["suite_note"] = r["suite_note"]
    meta["confirmed"] = {"demo_unpatched_rc": r["demo_unpatched"]["rc"], "demo_patched_rc": r["demo_patched"]["rc"],
                         "suite_missing_vs_baseline": r.get("suite", {}).get("missing"),
                         "how": "tools/seed_eval.py in a scratch copy of /repo (never committed there)"}
    cb = dict(old)
    for k, v in r.get("checks", {}).items():
        cb[k] = {"tier": "quick", "exit": v["exit"], "violations": v["violations"], "first_class": v.get("first_class")}
    meta["caught_by"] = cb
    json.dump(meta, open(os.path.join(dst, "meta.json"), "w"), indent=1, ensure_ascii=False)
    n += 1
print(n, "stored")
