#!/bin/bash
# tools/suite.sh [repo-dir]  — run the pinned suite (xdist) and compare its pass set with BASELINE.json stable_pass
d="${1:-/repo}"
out=$(mktemp /dev/shm/verif-junit-XXXXXX.xml)
(cd "$d" && env -u DATEPARSER_VERIF PYTHONPATH="$d" /venv/bin/python -m pytest -q -p no:cacheprovider --timeout=900 --continue-on-collection-errors ${SUITE_XDIST:+-n 16} --junitxml="$out" >/dev/null 2>&1)
python3 - "$out" <<'PY'
import json, sys, xml.etree.ElementTree as ET
base = set(json.load(open('/root/.vp/BASELINE.json'))['stable_pass'])
passed = set()
for tc in ET.parse(sys.argv[1]).getroot().iter('testcase'):
    if not any(ch.tag in ('failure', 'error', 'skipped') for ch in tc):
        passed.add("%s::%s" % (tc.get('classname'), tc.get('name')))
missing = sorted(base - passed)
print("baseline stable_pass=%d passed_now=%d missing=%d" % (len(base), len(passed), len(missing)))
for m in missing[:40]:
    print("  MISSING", m)
sys.exit(1 if missing else 0)
PY
rc=$?
rm -f "$out"
exit $rc
