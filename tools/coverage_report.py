#!/usr/bin/env python3
"""tools/coverage_report.py <dir> — library lines never executed by any case of the runs that wrote <dir> (VERIF_COVERAGE=<dir>)."""
import glob, os, sys, dis, types
repo = os.environ.get("VERIF_REPO", "/repo")
d = sys.argv[1]
seen = {}
for f in glob.glob(os.path.join(d, "*.txt")):
    for ln in open(f):
        fn, line = ln.rsplit(":", 1)
        seen.setdefault(fn, set()).add(int(line))
def exec_lines(path):
    """Executable lines inside functions (module- and class-level statements run at import, before any case, and are not listed)."""
    src = open(path, encoding="utf-8").read()
    code = compile(src, path, "exec")
    out = set()
    stack = [(code, True)]
    while stack:
        c, toplevel = stack.pop()
        if not toplevel:
            for _, _, line in c.co_lines():
                if line is not None and line != c.co_firstlineno:
                    out.add(line)
        for k in c.co_consts:
            if isinstance(k, types.CodeType):
                # class bodies also run at import
                is_class_body = toplevel and k.co_name != "<lambda>" and ("__qualname__" in k.co_names or "__module__" in k.co_names)
                stack.append((k, is_class_body))
    return out
skip = ("data/", "__pycache__")
total = miss = 0
for root, _, files in os.walk(os.path.join(repo, "dateparser")):
    for fn in sorted(files):
        if not fn.endswith(".py"):
            continue
        path = os.path.join(root, fn)
        rel = os.path.relpath(path, os.path.join(repo, "dateparser"))
        if rel.startswith(skip):
            continue
        ex = exec_lines(path)
        got = seen.get(rel, set())
        un = sorted(ex - got)
        total += len(ex); miss += len(un)
        if un:
            src = open(path, encoding="utf-8").read().splitlines()
            print("== %s: %d of %d executable lines never reached" % (rel, len(un), len(ex)))
            if "-v" in sys.argv:
                for l in un:
                    print("   %4d  %s" % (l, src[l - 1].rstrip()[:110]))
print("TOTAL: %d of %d executable library lines never reached" % (miss, total))
