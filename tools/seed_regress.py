#!/usr/bin/env python3
"""tools/seed_regress.py [ids...] — re-run every stored seeded change against the check(s) recorded as catching it (quick tier),
on a scratch copy of the CURRENT /repo.  Prints one line per change: caught / MISSED / patch does not apply."""
import glob, json, os, shutil, subprocess, sys, tempfile
root = os.path.join(os.path.dirname(os.path.abspath(__file__)), "..", "seeded")
ids = sys.argv[1:] or sorted(os.path.basename(p) for p in glob.glob(os.path.join(root, "C*-*")))
out = {}
for sid in ids:
    d = os.path.join(root, sid)
    meta = json.load(open(os.path.join(d, "meta.json")))
    checks = [c for c, v in (meta.get("caught_by") or {}).items() if v.get("exit") == 1] or [meta["property"]]
    t = tempfile.mkdtemp(prefix="verif-regr-", dir="/dev/shm")
    try:
        subprocess.run(["rsync", "-a", "--exclude", ".git", "--exclude", "__pycache__", "--exclude", "docs", "/repo/", t + "/"], check=True)
        p = subprocess.run(["patch", "-p1", "-s", "--dry-run", "-i", os.path.join(d, "patch.diff")], cwd=t, capture_output=True, text=True)
        if p.returncode != 0:
            print("%-7s patch does not apply to the current tree" % sid, flush=True)
            out[sid] = "no-apply"
            continue
        subprocess.run(["patch", "-p1", "-s", "-i", os.path.join(d, "patch.diff")], cwd=t, check=True)
        res = []
        for c in checks[:1]:
            r = subprocess.run(["/verif/check", c, "--tier", "quick"], env=dict(os.environ, VERIF_REPO=t, VERIF_OUT=os.path.join(t, "_out")),
                               capture_output=True, text=True, timeout=7200)
            res.append((c, r.returncode))
        ok = any(rc == 1 for _, rc in res)
        print("%-7s %s %s" % (sid, "caught" if ok else "MISSED", res), flush=True)
        out[sid] = "caught" if ok else "missed"
    finally:
        shutil.rmtree(t, ignore_errors=True)
json.dump(out, open("/dev/shm/seed_regress.json", "w"), indent=1)
