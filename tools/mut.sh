#!/bin/bash
# tools/mut.sh <patch.diff | -e 'python-edit-script'> -- <check args...>
# Applies a change to a scratch copy of /repo under /dev/shm, runs a check against it (VERIF_REPO), removes the copy.
set -u
patch="$1"; shift
[ "$1" = "--" ] && shift
d=$(mktemp -d /dev/shm/verif-mut-XXXXXX)
trap 'rm -rf "$d"' EXIT
rsync -a --exclude .git --exclude __pycache__ --exclude docs --exclude artwork /repo/ "$d/"
if [ "$patch" != "none" ]; then
  (cd "$d" && patch -p1 -s < "$patch") || { echo "patch failed"; exit 3; }
fi
if [ "${1:-}" = "pytest" ]; then
  shift
  (cd "$d" && PYTHONPATH="$d" /venv/bin/python -m pytest -q -p no:cacheprovider -x -n 16 "$@" 2>&1 | tail -5)
  exit $?
fi
VERIF_OUT=/dev/shm/verif-out VERIF_REPO="$d" /verif/check "$@"
