#!/usr/bin/env python3
"""tools/seed_eval.py <dir with patch.diff + demo.py> [--checks C01,C02] [--tier quick] [--no-suite]

Confirms a seeded change in a scratch copy of /repo (never in /repo itself):
  demo passes on the unmodified copy, fails with the patch; the pinned suite still passes (vs BASELINE stable_pass);
  then runs the named checks against the patched copy and reports which raise a VIOLATION.
Prints a JSON summary; removes the scratch copy."""
import argparse
import json
import os
import shutil
import subprocess
import sys
import tempfile
import xml.etree.ElementTree as ET

ap = argparse.ArgumentParser()
ap.add_argument("dir")
ap.add_argument("--checks", default="")
ap.add_argument("--tier", default="quick")
ap.add_argument("--no-suite", action="store_true")
a = ap.parse_args()
src = os.path.abspath(a.dir)
d = tempfile.mkdtemp(prefix="verif-seed-", dir="/dev/shm")
res = {"dir": src}
try:
    subprocess.run(["rsync", "-a", "--exclude", ".git", "--exclude", "__pycache__", "--exclude", "docs", "--exclude", "SEEDED", "/repo/", d + "/"], check=True)
    env = dict(os.environ, PYTHONPATH=d, PYTHONDONTWRITEBYTECODE="1", TZ="UTC")
    env.pop("DATEPARSER_VERIF", None)
    demo = os.path.join(src, "demo.py")
    shutil.copy(demo, os.path.join(d, "demo.py"))

    def run_demo():
        r = subprocess.run(["/venv/bin/python", "demo.py"], cwd=d, env=env, capture_output=True, text=True, timeout=900)
        return r.returncode, (r.stdout + r.stderr)[-400:]
    rc0, out0 = run_demo()
    res["demo_unpatched"] = {"rc": rc0, "tail": out0}
    p = subprocess.run(["patch", "-p1", "-s", "-i", os.path.join(src, "patch.diff")], cwd=d, capture_output=True, text=True)
    if p.returncode != 0:
        p = subprocess.run(["git", "apply", os.path.join(src, "patch.diff")], cwd=d, capture_output=True, text=True)
    res["patch_applied"] = p.returncode == 0
    if p.returncode != 0:
        res["patch_error"] = (p.stdout + p.stderr)[-500:]
        print(json.dumps(res, indent=1, ensure_ascii=False))
        sys.exit(3)
    rc1, out1 = run_demo()
    res["demo_patched"] = {"rc": rc1, "tail": out1}
    if not a.no_suite:
        junit = os.path.join(d, "_junit.xml")
        subprocess.run(["/venv/bin/python", "-m", "pytest", "-q", "-p", "no:cacheprovider", "--timeout=900", "--continue-on-collection-errors", "--ignore=demo.py", "--ignore=_out",
                        "--junitxml=" + junit], cwd=d, env=env, capture_output=True, text=True, timeout=3600)
        base = set(json.load(open("/root/.vp/BASELINE.json"))["stable_pass"])
        passed = set()
        for tc in ET.parse(junit).getroot().iter("testcase"):
            if not any(ch.tag in ("failure", "error", "skipped") for ch in tc):
                passed.add("%s::%s" % (tc.get("classname"), tc.get("name")))
        missing = sorted(base - passed)
        res["suite"] = {"baseline": len(base), "passed": len(passed), "missing": len(missing), "missing_examples": missing[:5]}
    caught = {}
    for cid in [c for c in a.checks.split(",") if c]:
        out = os.path.join(d, "_out")
        e2 = dict(os.environ, VERIF_REPO=d, VERIF_OUT=out)
        r = subprocess.run(["/verif/check", cid, "--tier", a.tier], env=e2, capture_output=True, text=True, timeout=7200)
        lines = [l for l in r.stdout.splitlines() if l.startswith("VIOLATION")]
        summ = [l for l in r.stdout.splitlines() if l.startswith(cid + " tier=")]
        caught[cid] = {"exit": r.returncode, "violations": len(lines), "summary": summ[-1] if summ else (r.stderr[-300:]),
                       "first_class": next((l.strip()[:300] for l in r.stdout.splitlines() if l.strip().startswith("class=")), None)}
    res["checks"] = caught
    res["ok"] = rc0 == 0 and rc1 != 0 and (a.no_suite or res["suite"]["missing"] == 0)
    print(json.dumps(res, indent=1, ensure_ascii=False))
finally:
    shutil.rmtree(d, ignore_errors=True)
