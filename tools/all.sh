#!/bin/bash
# tools/all.sh <quick|thorough> [ids...] — run checks one after another, print one summary line each
tier="${1:-quick}"; shift
ids="$@"
[ -z "$ids" ] && ids="C01 C02 C03 C04 C05 C06 C07 C08 C09 C10 C11 C12 C13 C14 C15 C16 C17 C18 C19 C20"
here="$(cd "$(dirname "$0")/.." && pwd)"
rc=0
for id in $ids; do
  out=$("$here/check" "$id" --tier "$tier" 2>&1); st=$?
  echo "== $id exit=$st $(echo "$out" | grep -E "^$id tier=" | tail -1)"
  echo "$out" | grep -E "^VIOLATION|^KNOWN-FINDING|INFRASTRUCTURE|^  note|UNDECIDED|^  class=" | cut -c1-400
  [ $st -ne 0 ] && rc=1
done
exit $rc
