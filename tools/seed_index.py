#!/usr/bin/env python3
"""Regenerates /verif/seeded/INDEX.md from /verif/seeded/*/meta.json (which checks catch which seeded change)."""
import glob
import json
import os

root = os.path.join(os.path.dirname(os.path.abspath(__file__)), "..", "seeded")
rows = []
for m in sorted(glob.glob(os.path.join(root, "*", "meta.json"))):
    j = json.load(open(m))
    rows.append((os.path.basename(os.path.dirname(m)), j))
out = ["# Seeded property-breaking changes and the checks that catch them", "",
       "Each directory holds `patch.diff` (applies to /repo with `git apply`), `demo.py` (PASS without / FAIL with the change) and",
       "`meta.json`.  All were confirmed in scratch copies (`tools/seed_eval.py`): demo passes unpatched, fails patched, the pinned",
       "suite still passes.  None is ever committed to /repo.", "",
       "| seeded change | property | what it needs to manifest | caught by (quick tier unless stated) | first violation class |", "|---|---|---|---|---|"]
for name, j in rows:
    caught = j.get("caught_by") or {}
    c = ", ".join("%s%s" % (k, "" if v.get("tier", "quick") == "quick" else " (%s)" % v["tier"]) for k, v in caught.items() if v.get("violations"))
    missed = ", ".join(k for k, v in caught.items() if not v.get("violations"))
    first = next((v.get("first_class") for v in caught.values() if v.get("violations")), "") or ""
    out.append("| %s | %s | %s | %s%s | %s |" % (name, j.get("property"), (j.get("needs") or "").replace("|", "/")[:160],
                                                 c or "**not caught**", (" (silent: %s)" % missed) if missed else "", first.replace("|", "/")[:140]))
open(os.path.join(root, "INDEX.md"), "w").write("\n".join(out) + "\n")
print("%d seeded changes indexed" % len(rows))
