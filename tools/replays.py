#!/usr/bin/env python3
"""tools/replays.py <Cnn> [dir] — summarise the replay files of a property (class, count, example detail)."""
import glob, json, os, sys
pid = sys.argv[1].upper()
d = sys.argv[2] if len(sys.argv) > 2 else "/verif/replays"
for f in sorted(glob.glob(os.path.join(d, pid, "*.json")), key=os.path.getmtime):
    r = json.load(open(f))
    print(json.dumps(r["class"], ensure_ascii=False), "count=%s" % r.get("count_in_run"))
    print("    detail:", json.dumps(r.get("detail"), ensure_ascii=False)[:300])
    print("    observed:", json.dumps(r.get("observed"), ensure_ascii=False)[:300])
