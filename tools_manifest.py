#!/usr/bin/env python3
"""Regenerates MANIFEST.json from the property modules present in vf/props (python3 tools_manifest.py)."""
import importlib.util, json, os, re, sys

HERE = os.path.dirname(os.path.abspath(__file__))
props = [json.loads(l) for l in open(os.path.join(HERE, "properties.jsonl"))]
META = {}
for p in props:
    pid = p["id"]
    path = os.path.join(HERE, "vf", "props", pid.lower() + ".py")
    if not os.path.exists(path):
        continue
    src = open(path, encoding="utf-8").read()
    def grab(name, default=""):
        m = re.search(r'^%s\s*=\s*\(?\s*((?:"[^"\n]*"\s*)+)\)?' % name, src, re.M)
        return "".join(re.findall(r'"([^"\n]*)"', m.group(1))) if m else default
    META[pid] = {"level": grab("LEVEL", "exploration"), "technique": grab("TECHNIQUE"),
                 "claim": grab("CLAIM"), "note": grab("LEVEL_NOTE"), "section": grab("DESIGN_REF", "2/" + pid),
                 "na": grab("NOT_CLAIMED")}
checks, na = [], []
for p in props:
    pid = p["id"]
    m = META.get(pid)
    if not m or m["na"]:
        na.append({"property_id": pid, "reason": (m or {}).get("na") or "check not built yet (work in progress); see DESIGN.md section 2/%s for the planned exploration" % pid})
        continue
    checks.append({
        "property_id": pid,
        "quick_cmd": "./check %s --tier quick" % pid,
        "thorough_cmd": "./check %s --tier thorough" % pid,
        "evidence_file": "/verif/evidence/%s.json" % pid,
        "replay_cmd_template": "./check %s --replay {path}" % pid,
        "engine": "vf",
        "level_claimed": {"category": m["level"], "text": m["claim"] or m["technique"], "design_ref": "DESIGN.md " + m["section"]},
        "level_note": m["note"] or "trusted: CPython 3.12, pytz/dateutil/regex as installed, the harness's reference models (vf/refmodel); bound = the sub-spaces listed in the evidence file",
        "technique": m["technique"],
    })
man = {
    "version": 1,
    "setup_cmd": "/venv/bin/python -c \"import sys; sys.path.insert(0,'/verif'); import vf.runner, vf.space, vf.codec\"",
    "hooks": {"guard": "DATEPARSER_VERIF", "enable": "no source hooks: checks import /repo's working tree directly (PYTHONPATH) and install their seams (clock, locks, tracing, scratch copies of the cache file) from the harness",
              "baseline_off_cmd": "cd /repo && /venv/bin/python -m pytest -ra -q -p no:cacheprovider --timeout=900 --continue-on-collection-errors",
              "source_commits": [], "add_only": True},
    "engines": [{"name": "vf", "path": "/verif/vf", "serves_properties": [c["property_id"] for c in checks],
                 "kind_free_text": "hand-written explicit-state / bounded-exhaustive explorers that execute the real dateparser code: E1 input-configuration space enumeration against reference models, E2 BFS over call histories with heap snapshots, E3 crash-state enumeration of the recorded cache write, E4 single-preemption schedule enumeration under sys.settrace"}],
    "checks": checks,
    "not_applicable": na,
    "notes": "Every check: exit 0 held / exit 1 + VIOLATION line / exit 2 infrastructure error. VERIF_REPO selects the tree (default /repo); VERIF_SEED permutes visiting order and selects quick-tier stripes only. Known findings: /verif/known_findings.jsonl.",
}
json.dump(man, open(os.path.join(HERE, "MANIFEST.json"), "w"), indent=1)
print("checks:", [c["property_id"] for c in checks], "na:", [n["property_id"] for n in na])
